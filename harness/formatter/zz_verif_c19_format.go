package formatter

import (
	"strings"

	"golang.org/x/net/html"
	"golang.org/x/net/html/atom"
)

// C19 — formatting is idempotent and preserves what the template means.

//verif:harness VerifC19_Text quick.maxpaths=60000 thorough.maxpaths=400000 timeout=2400 unwind=80
//verif:harness VerifC19_TwoMustaches quick.maxpaths=60000 thorough.maxpaths=400000 timeout=2400 unwind=80
//verif:harness VerifC19_Attr quick.maxpaths=60000 thorough.maxpaths=400000 timeout=2400
//verif:harness VerifC19_Corpus quick.maxpaths=20000 thorough.maxpaths=100000 timeout=2400 steps=40000000

func zzIsTagStart(c byte) bool {
	return c >= 'a' && c <= 'z' || c >= 'A' && c <= 'Z' || c == '/' || c == '!' || c == '?'
}

func zzIsRefStart(c byte) bool {
	return c >= 'a' && c <= 'z' || c >= 'A' && c <= 'Z' || c >= '0' && c <= '9' || c == '#'
}

// zzRefEscapeText is the specification of text escaping: outside mustaches
// & < > become references; inside a closed mustache the expression is kept,
// except that a '<' which would open a tag and an '&' which would start a
// character reference are written as references (they decode back to the
// same expression text).
func zzRefEscapeText(s string) string {
	var b strings.Builder
	i := 0
	for i < len(s) {
		if i+1 < len(s) && s[i] == '{' && s[i+1] == '{' {
			end := strings.Index(s[i+2:], "}}")
			if end != -1 {
				stop := i + 2 + end + 2
				for j := i; j < stop; j++ {
					c := s[j]
					switch {
					case c == '<' && j+1 < len(s) && zzIsTagStart(s[j+1]):
						b.WriteString("&lt;")
					case c == '&' && j+1 < len(s) && zzIsRefStart(s[j+1]):
						b.WriteString("&amp;")
					default:
						b.WriteByte(c)
					}
				}
				i = stop
				continue
			}
		}
		switch s[i] {
		case '&':
			b.WriteString("&amp;")
		case '<':
			b.WriteString("&lt;")
		case '>':
			b.WriteString("&gt;")
		default:
			b.WriteByte(s[i])
		}
		i++
	}
	return b.String()
}

// VerifC19_Text: escapeText on an arbitrary decoded text produces text that
// opens no tag and equals the specification above (native replays check the
// real parser reads it back as the same text).
func VerifC19_Text() {
	n := zzBound("N", 5, 7)
	t := zzStringIn("t", n, "<>&{}a ;#")
	out := escapeText(t)
	zzNote("out", out)
	zzCover(len(t) == n, "full-length text")
	zzAssert(zzTagOpens(out) == 0, "C19.text.opens-a-tag")
	zzAssert(zzUnescape(out) == t, "C19.text.decodes-to-the-same-text")
	zzAssert(zzTextRoundTrips(out, t), "C19.text.round-trip")
	// kernel idempotence: formatting the decoded output again gives the same output
	zzAssert(escapeText(zzUnescape(out)) == out, "C19.text.idempotent")
	zzCover(out == zzRefEscapeText(t), "output has the canonical form")
}

// VerifC19_TwoMustaches: two interpolations in one text node with arbitrary
// text inside and between them.
func VerifC19_TwoMustaches() {
	n := zzBound("N", 1, 2)
	x := zzStringIn("x", n, "<>&a ")
	mid := zzStringIn("mid", n, "<>&a; ")
	y := zzStringIn("y", n, "<>&a ")
	t := "{{" + x + "}}" + mid + "{{" + y + "}}"
	out := escapeText(t)
	zzNote("out", out)
	zzAssert(zzTagOpens(out) == 0, "C19.text.opens-a-tag")
	zzAssert(zzUnescape(out) == t, "C19.text.decodes-to-the-same-text")
	zzAssert(zzTextRoundTrips(out, t), "C19.text.round-trip")
}

// zzRefAttr is the specification of attribute formatting: white space is
// collapsed and trimmed, '"' and an '&' that would start a character
// reference are written as references.
func zzRefAttr(s string) string {
	s = strings.TrimSpace(s)
	var b strings.Builder
	prevSpace := false
	for i := 0; i < len(s); i++ {
		c := s[i]
		if c == ' ' || c == '\n' || c == '\t' || c == '\r' || c == '\f' || c == '\v' {
			if !prevSpace {
				b.WriteByte(' ')
			}
			prevSpace = true
			continue
		}
		prevSpace = false
		switch {
		case c == '"':
			b.WriteString("&quot;")
		case c == '&' && i+1 < len(s) && zzIsRefStart(s[i+1]):
			b.WriteString("&amp;")
		default:
			b.WriteByte(c)
		}
	}
	return b.String()
}

// VerifC19_Attr: an arbitrary attribute value is written as one quoted value
// that reads back as the whitespace-collapsed value.
func VerifC19_Attr() {
	n := zzBound("N", 4, 6)
	a := zzStringIn("a", n, "\"'&<>= a;#\nlt3")
	node := &html.Node{Type: html.ElementNode, Data: "p", Attr: []html.Attribute{{Key: "title", Val: a}, {Key: "id", Val: "k"}}}
	out := NewFormatter().renderOpenTag(node)
	zzNote("out", out)
	zzCover(len(a) == n, "full-length value")
	if a == "" {
		zzAssert(out == `<p title id="k">`, "C19.attr.empty")
		return
	}
	if zzCollapse(a) == "" {
		return // an all-blank value
	}
	zzAssert(zzTagOpens(out) == 1 && zzTagQuotes(out) == 4, "C19.attr.breaks-out-of-the-value")
	zzAssert(zzUnescape(out) == `<p title="`+zzCollapse(a)+`" id="k">`, "C19.attr.decodes-to-the-collapsed-value")
	zzAssert(zzAttrRoundTrips(out, "title", a), "C19.attr.round-trip")
	zzCover(out == `<p title="`+zzRefAttr(a)+`" id="k">`, "output has the canonical form")
}

// ---- corpus -----------------------------------------------------------------------

var zzC19Corpus = []string{
	/* 0 */ "<div class=\"a\"><p>Hello <b>x</b> {{ name }}</p></div>",
	/* 1 */ "---\ntitle: T\nlayout: base\n---\n<h1>{{ title }}</h1>\n<p v-if=\"a && b\">yes</p>\n",
	/* 2 */ "<!DOCTYPE html>\n<html><head><title>T</title></head><body><p>doc &amp; more</p></body></html>",
	/* 3 */ "<ul>\n<li v-for=\"(i, it) in items\" :key=\"i\">{{ it.name | upper }}</li>\n</ul>",
	/* 4 */ "<p title='say \"hi\"'>q</p>",
	/* 5 */ "<p title=\"a &amp;lt; b\">&amp;lt; text &lt;i&gt; {{ a &lt;b }}</p>",
	/* 6 */ "<pre>  keep\n   this </pre><script>if (a < b) { go(); }</script><style>\np > a { color: red }\n</style>",
	/* 7 */ "<table><tr><td>1</td><td v-if=\"x > 1 && y < 2\">2</td></tr></table>",
	/* 8 */ "<p>a<br>b<img src=\"i.png\"><input value=\"1 > 0\"></p>",
	/* 9 */ "<template include=\"c.vuego\" :p=\"{a: 1, b: 'x'}\"><template #h=\"s\">{{ s.v }}</template></template>",
	/* 10 */ "<td>cell</td><td>two</td>",
	/* 11 */ "<p>{{ a < b }} and {{ c && d }} &amp; {{ e > f ? 'x' : 'y' }}</p>",
	/* 12 */ "<p>{{ a }} &lt;b&gt; &amp;lt; {{ c }}</p><pre>{{ x }} &lt;i&gt; {{ y }}</pre>",
	/* 13 */ "<table><tr><td><a href=\"#\"><pre>if a:\n    b()</pre></a></td></tr></table>",
	/* 14 */ "<span><b><script>if (a<b && c>d) { go(); }</script></b></span><p><i><style>p > a { color: red }</style></i></p>",
	/* 15 */ "<div><span><pre>  two\n   lines </pre></span><em><textarea>  keep\n  me </textarea></em></div>",
	/* 16 */ "<p><label>a <input type=\"checkbox\" checked> b</label> <select><option selected>x</option></select></p>",
	// fragments that start with a table-scoped element, the tag name followed
	// by every kind of delimiter
	/* 17 */ "<tr\n  v-for=\"row in rows\"\n  :key=\"row.id\">\n  <td>{{ row.name }}</td>\n  <td>{{ row.value }}</td>\n</tr>\n",
	/* 18 */ "<td\tclass=\"x\">a</td><td>b</td>",
	/* 19 */ "---\nk: v\n---\n<thead\n><tr><th>h</th></tr></thead>",
	/* 20 */ "<tr><td>1</td></tr><tr\n><td>2</td></tr>",
	/* 21 */ "<TBODY><tr><td>x</td></tr></TBODY>",
	/* 22 */ "<col span=\"2\"><col>",
	/* 23 */ "<caption>c</caption><tr><td>1</td></tr>",
	/* 24 */ "<thing>not a table element</thing><p>x</p>",
	// every table-scoped element as the root of a fragment
	/* 25 */ "<colgroup><col span=\"2\" :class=\"c\"><col></colgroup>",
	/* 26 */ "---\nk: v\n---\n<COLGROUP span=\"2\"></COLGROUP>",
	/* 27 */ "<th scope=\"col\">h</th><th>i</th>",
	/* 28 */ "<tfoot><tr><td>f</td></tr></tfoot>",
	/* 29 */ "<tbody v-for=\"g in groups\"><tr><td>{{ g }}</td></tr></tbody>",
	// preformatted text inside child elements of <pre>, with leading / trailing newlines
	/* 30 */ "<pre><code>\nfunc main() {\n\tgo()\n}\n</code></pre>",
	/* 31 */ "<pre>\n\nfirst line after a blank one</pre><pre><span>\n x</span>\n<b>y\n</b></pre>",
	/* 32 */ "<div><textarea>\n\n two</textarea></div>",
	// text outside ASCII
	/* 34 */ "<a title=\"Voilà, c'est tout — Привет мир, 元気 です\" href=\"/à la carte\">à  b</a>",
	/* 33 */ "<p title=\"naïve — “quoted” 日本語\">Füße &amp; Ærøskøbing – 東京 🙂 {{ größe > 1 ? 'ü' : 'ö' }}</p><pre>  日本\n 語 </pre>",
}

func zzSig(nodes []*html.Node) string {
	var sb strings.Builder
	var walk func(n *html.Node)
	walk = func(n *html.Node) {
		switch n.Type {
		case html.ElementNode:
			sb.WriteString("<" + n.Data)
			for _, a := range n.Attr {
				sb.WriteString(" " + a.Key + "=" + strings.Join(strings.Fields(a.Val), " "))
			}
			sb.WriteString(">")
			for c := n.FirstChild; c != nil; c = c.NextSibling {
				walk(c)
			}
			sb.WriteString("</" + n.Data + ">")
		case html.TextNode:
			t := strings.Join(strings.Fields(n.Data), " ")
			if p := n.Parent; p != nil && (p.Data == "pre" || p.Data == "script" || p.Data == "style" || p.Data == "textarea") {
				// content of raw-text and pre elements is not to be altered
				// (surrounding blank lines aside)
				t = "RAW:" + strings.Trim(n.Data, " \n\t")
			}
			if t != "" {
				sb.WriteString("[" + t + "]")
			}
		case html.DoctypeNode:
			sb.WriteString("<!doctype " + n.Data + ">")
		case html.DocumentNode:
			for c := n.FirstChild; c != nil; c = c.NextSibling {
				walk(c)
			}
		}
	}
	for _, n := range nodes {
		walk(n)
	}
	return sb.String()
}

// zzContextFor chooses the parse context of a fragment from its first tag as
// HTML5 does for table-scoped elements (independently of the formatter).
func zzContextFor(body string) *html.Node {
	t := strings.TrimSpace(body)
	name := ""
	if strings.HasPrefix(t, "<") {
		k := 1
		for k < len(t) && t[k] != ' ' && t[k] != '\t' && t[k] != '\n' && t[k] != '\r' && t[k] != '\f' && t[k] != '>' && t[k] != '/' {
			k++
		}
		name = strings.ToLower(t[1:k])
	}
	switch name {
	case "td", "th":
		return &html.Node{Type: html.ElementNode, DataAtom: atom.Tr, Data: "tr"}
	case "tr":
		return &html.Node{Type: html.ElementNode, DataAtom: atom.Tbody, Data: "tbody"}
	case "thead", "tbody", "tfoot", "caption", "colgroup":
		return &html.Node{Type: html.ElementNode, DataAtom: atom.Table, Data: "table"}
	case "col":
		return &html.Node{Type: html.ElementNode, DataAtom: atom.Colgroup, Data: "colgroup"}
	}
	return &html.Node{Type: html.ElementNode, DataAtom: atom.Body, Data: "body"}
}

func zzParseBody(f *Formatter, src string) []*html.Node {
	_, body := f.splitFrontmatter(src)
	trimmed := strings.TrimSpace(body)
	if strings.HasPrefix(trimmed, "<!DOCTYPE") || strings.HasPrefix(trimmed, "<html") {
		doc, err := html.Parse(strings.NewReader(body))
		if err != nil {
			return nil
		}
		return []*html.Node{doc}
	}
	nodes, err := html.ParseFragment(strings.NewReader(body), zzContextFor(body))
	if err != nil {
		return nil
	}
	return nodes
}

// VerifC19_Corpus: idempotence and meaning preservation on templates that
// exercise quotes, entities, operators, raw text, pre, tables, front-matter
// and doctype.
func VerifC19_Corpus() {
	k := zzChoice("doc", len(zzC19Corpus))
	src := zzC19Corpus[k]
	f := NewFormatter()
	once, err := f.Format(src)
	zzAssert(err == nil, "C19.corpus.format-error")
	twice, err2 := f.Format(once)
	zzAssert(err2 == nil, "C19.corpus.format-error")
	zzNote("src", src)
	zzNote("once", once)
	zzNote("twice", twice)
	zzAssert(once == twice, "C19.corpus.idempotent")
	zzAssert(zzSig(zzParseBody(f, once)) == zzSig(zzParseBody(f, src)), "C19.corpus.same-document")
	fm, _ := f.splitFrontmatter(src)
	zzAssert(strings.HasPrefix(once, fm), "C19.corpus.front-matter-kept")
	if strings.HasPrefix(src, "<!DOCTYPE html>") {
		zzAssert(strings.HasPrefix(once, "<!DOCTYPE html>"), "C19.corpus.doctype-kept")
	}
}
