package vuego

import (
	"strings"
)

// C05 — components receive exactly their props; front-matter wins; nothing leaks back.

//verif:harness VerifC05_Props quick.maxpaths=60000 thorough.maxpaths=300000 timeout=2400
//verif:harness VerifC05_Nested quick.maxpaths=20000 thorough.maxpaths=100000 timeout=1800
//verif:harness VerifC05_Required quick.maxpaths=20000 thorough.maxpaths=100000 timeout=1800
//verif:harness VerifC05_Shorthand quick.maxpaths=20000 thorough.maxpaths=100000 timeout=1800

func zzC05FS() *zzFS {
	return newZZFS(map[string]string{
		"c.vuego": "---\nfm: FM\nboth: FMBOTH\n---\n" +
			`<span class="c">[a={{ a }}|b={{ b }}|fm={{ fm }}|both={{ both }}|inc={{ inc }}|t={{ b | type }}]</span>`,
		"outer.vuego":              `<div class="outer"><template include="c.vuego" :a="oa" b="static-b"></template>{oa={{ oa }}}</div>`,
		"req.vuego":                `<template :required="must, also"><i>{{ must }}/{{ also }}</i></template>`,
		"req1.vuego":               `<template :require="must"><i>{{ must }}</i></template>`,
		"reqfm.vuego":              "---\nmust: FM-M\n---\n<template :required=\"must, also\"><i>{{ must }}/{{ also }}</i></template>",
		"components/my-card.vuego": `<section class="card">[{{ title }}|{{ n }}]</section>`,
	})
}

// how a prop is supplied on the include tag
func zzC05Prop(name string, how int, staticVal, varName string) string {
	switch how {
	case 1:
		return " " + name + `="` + staticVal + `"`
	case 2:
		return " " + name + `="pre-{{ ` + varName + ` }}"`
	case 3:
		return " :" + name + `="` + varName + `"`
	case 4:
		return " v-bind:" + name + `="` + varName + `"`
	}
	return ""
}

// VerifC05_Props: every way of providing / omitting the props a and b, prop
// names colliding with includer variables and front-matter keys, bound values
// of several types, the component used twice, and nothing leaking back.
func VerifC05_Props() {
	howA := zzChoice("howA", 5)
	howB := zzChoice("howB", 5)
	bKind := zzChoice("bkind", 5)
	includerHasA := zzBool("includerHasA")
	twice := zzBool("twice")
	propBoth := zzBool("propBoth")

	data := map[string]any{"inc": "INC", "va": "VA"}
	var bStr, bType string
	switch bKind {
	case 0:
		data["vb"] = "VB"
		bStr, bType = "VB", "string"
	case 1:
		data["vb"] = 7
		bStr, bType = "7", "int"
	case 2:
		data["vb"] = true
		bStr, bType = "true", "bool"
	case 3:
		data["vb"] = []string{"x", "y"}
		bStr, bType = "[x y]", "[]string"
	case 4: // a string that begins like a JSON value and goes on: it is a string
		data["vb"] = "[1] Intro {} end"
		bStr, bType = "[1] Intro {} end", "string"
	}
	if includerHasA {
		data["a"] = "INCLUDER-A"
	}
	both := ""
	if propBoth {
		both = ` both="PROPBOTH"`
	}
	inc := `<template include="c.vuego"` + zzC05Prop("a", howA, "SA", "va") + zzC05Prop("b", howB, "SB", "vb") + both + `></template>`
	body := `<div>` + inc
	if twice {
		body += `<template include="c.vuego" a="SECOND"></template>`
	}
	body += `<p>after:a={{ a }}|b={{ b }}|fm={{ fm }}|both={{ both }}</p></div>`

	// reference
	wantA := ""
	if includerHasA {
		wantA = "INCLUDER-A"
	}
	switch howA {
	case 1:
		wantA = "SA"
	case 2:
		wantA = "pre-VA"
	case 3, 4:
		wantA = "VA"
	}
	wantB, wantT := "", "&lt;nil&gt;"
	switch howB {
	case 1:
		wantB, wantT = "SB", "string"
	case 2:
		wantB, wantT = "pre-"+bStr, "string"
	case 3, 4:
		wantB, wantT = bStr, bType
		if bKind == 2 {
			// a bound false would be omitted; true is kept typed
			wantT = "bool"
		}
	}
	want1 := "[a=" + wantA + "|b=" + wantB + "|fm=FM|both=FMBOTH|inc=INC|t=" + wantT + "]"
	afterA := ""
	if includerHasA {
		afterA = "INCLUDER-A"
	}
	wantAfter := "after:a=" + afterA + "|b=|fm=|both="

	out, err := zzRenderVia(zzEntry(), zzC05FS(), nil, body, data)
	zzNote("template", body)
	zzNote("out", out)
	zzNote("want", want1)
	if err != nil {
		zzNote("err", err.Error())
	}
	zzAssert(err == nil, "C05.props.render-error")
	zzAssert(strings.Contains(out, want1), "C05.props.component-sees-props-frontmatter-includer")
	if twice {
		second := "[a=SECOND|b=|fm=FM|both=FMBOTH|inc=INC|t=&lt;nil&gt;]"
		zzAssert(strings.Contains(out, second), "C05.props.second-instance-has-own-props")
	}
	zzAssert(strings.Contains(out, wantAfter), "C05.props.nothing-leaks-back")
}

// VerifC05_Required: a :required / :require list fails the render exactly
// when a named variable was not provided, and the error names it.
func VerifC05_Required() {
	haveMust := zzChoice("must", 5) // 0 absent, 1 prop, 2 includer variable, 3 / 4 bound prop whose value is a blank / the string " false "
	haveAlso := zzChoice("also", 4) // 3: includer variable that is present with a nil value
	single := zzBool("single")
	fmDefines := !single && zzBool("frontmatterDefinesMust")
	data := map[string]any{}
	props := ""
	switch haveMust {
	case 1:
		props += ` must="M"`
	case 2:
		data["must"] = "M"
	case 3:
		props += ` :must="blank"`
		data["blank"] = " "
		data["must"] = "INCLUDER" // the prop, not the includer's variable, is what the component sees
	case 4:
		props += ` :must="' false '"`
	}
	switch haveAlso {
	case 1:
		props += ` also="A"`
	case 2:
		data["also"] = "A"
	case 3:
		data["also"] = nil
	}
	file := "req.vuego"
	if single {
		file = "req1.vuego"
	}
	if fmDefines {
		file = "reqfm.vuego"
	}
	body := `<div><template include="` + file + `"` + props + `></template></div>`
	out, err := zzRenderVia(zzEntry(), zzC05FS(), nil, body, data)
	zzNote("template", body)
	zzNote("out", out)
	missing := ""
	if haveMust == 0 && !fmDefines {
		missing = "must"
	} else if haveAlso == 0 && !single {
		missing = "also"
	}
	if err != nil {
		zzNote("err", err.Error())
	}
	if missing == "" {
		zzAssert(err == nil, "C05.required.spurious-error")
		if fmDefines {
			zzAssert(strings.Contains(out, "<i>FM-M/"), "C05.required.renders")
		} else if haveMust == 3 {
			zzAssert(strings.Contains(out, "<i> </i>") || strings.Contains(out, "<i> /"), "C05.required.renders")
		} else if haveMust == 4 {
			zzAssert(strings.Contains(out, "<i> false "), "C05.required.renders")
		} else {
			zzAssert(strings.Contains(out, "<i>M"), "C05.required.renders")
		}
	} else {
		zzAssert(err != nil, "C05.required.missing-not-reported")
		zzAssert(strings.Contains(err.Error(), "'"+missing+"'"), "C05.required.error-names-variable")
	}
}

// VerifC05_Shorthand: a registered shorthand tag behaves exactly like the
// equivalent <template include>.
func VerifC05_Shorthand() {
	how := zzChoice("how", 4)
	nKind := zzChoice("nkind", 2)
	inside := zzBool("insideComponent")
	data := map[string]any{"tv": "TV"}
	if nKind == 0 {
		data["nv"] = 5
	} else {
		data["nv"] = "five"
	}
	props := ""
	switch how {
	case 0:
		props = ` title="ST" :n="nv"`
	case 1:
		props = ` :title="tv" n="3"`
	case 2:
		props = ` title="x {{ tv }}"`
	case 3:
		props = ``
	}
	fsys := zzC05FS()
	explicit := `<div><template include="components/my-card.vuego"` + props + `></template><b>{{ title }}</b></div>`
	short := `<div><my-card` + props + `></my-card><b>{{ title }}</b></div>`
	if inside {
		// the tag is used inside an included component file
		fsys.files["wrap_e.vuego"] = explicit
		fsys.files["wrap_s.vuego"] = short
		explicit = `<section><template include="wrap_e.vuego"></template></section>`
		short = `<section><template include="wrap_s.vuego"></template></section>`
	}
	out1, err1 := zzRender(NewFS(fsys, WithComponents()), explicit, data)
	out2, err2 := zzRender(NewFS(fsys, WithComponents()), short, data)
	zzNote("explicit", out1)
	zzNote("shorthand", out2)
	zzAssert(err1 == nil && err2 == nil, "C05.shorthand.render-error")
	zzAssert(out1 == out2, "C05.shorthand.equals-explicit-include")
	zzAssert(strings.Contains(out2, `class="card"`), "C05.shorthand.resolved")
}

// VerifC05_Nested: a component that includes another component is used
// several times (side by side, in a loop, and in a second render on the same
// engine) with different props; every inner instance sees the props of its
// own outer instance, with their types.
func VerifC05_Nested() {
	mode := zzChoice("mode", 3)
	bound := zzBool("bound")
	fsys := zzC05FS()
	if bound {
		fsys.files["outer.vuego"] = `<div class="outer"><template include="c.vuego" :a="oa" :b="ob"></template>{oa={{ oa }}}</div>`
	} else {
		fsys.files["outer.vuego"] = `<div class="outer"><template include="c.vuego" a="x-{{ oa }}" :b="ob"></template>{oa={{ oa }}}</div>`
	}
	// the outer component may also include a component that takes no props
	// and has no front-matter (its scope stays empty)
	if zzBool("bareInner") {
		fsys.files["bare.vuego"] = `<i>bare</i>`
		fsys.files["outer.vuego"] = strings.Replace(fsys.files["outer.vuego"], `{oa=`, `<template include="bare.vuego"></template>{oa=`, 1)
	}
	tpl := NewFS(fsys)
	pre := "x-"
	if bound {
		pre = ""
	}
	inner := func(oa, ob, t string) string {
		return "[a=" + pre + oa + "|b=" + ob + "|fm=FM|both=FMBOTH|inc=INC|t=" + t + "]"
	}
	var body string
	var wants []string
	switch mode {
	case 0: // side by side
		body = `<div><template include="outer.vuego" oa="first" :ob="n1"></template><template include="outer.vuego" oa="second" :ob="s2"></template><u>after:{{ oa }}|{{ ob }}</u></div>`
		wants = []string{inner("first", "1", "int"), inner("second", "two", "string")}
	case 1: // in a loop
		body = `<div><p v-for="it in rows"><template include="outer.vuego" :oa="it.name" :ob="it.v"></template></p><u>after:{{ oa }}|{{ ob }}</u></div>`
		wants = []string{inner("r1", "1", "int"), inner("r2", "two", "string")}
	case 2: // two renders on the same engine
		body = `<div><template include="outer.vuego" :oa="who" :ob="val"></template><u>after:{{ oa }}|{{ ob }}</u></div>`
	}
	data := map[string]any{"inc": "INC", "n1": 1, "s2": "two",
		"rows": []any{map[string]any{"name": "r1", "v": 1}, map[string]any{"name": "r2", "v": "two"}}}
	if mode < 2 {
		out, err := zzRender(tpl, body, data)
		zzNote("out", out)
		zzAssert(err == nil, "C05.nested.render-error")
		for _, w := range wants {
			zzNote("want", w)
			zzAssert(strings.Contains(out, w), "C05.nested.inner-sees-own-outer-props")
		}
		zzAssert(strings.Contains(out, "<u>after:|</u>"), "C05.nested.nothing-leaks-back")
		return
	}
	data["who"], data["val"] = "alice", 1
	out1, err1 := zzRender(tpl, body, data)
	data["who"], data["val"] = "bob", "two"
	out2, err2 := zzRender(tpl, body, data)
	zzNote("out", out1+out2)
	zzAssert(err1 == nil && err2 == nil, "C05.nested.render-error")
	zzAssert(strings.Contains(out1, inner("alice", "1", "int")), "C05.nested.first-render")
	zzAssert(strings.Contains(out2, inner("bob", "two", "string")), "C05.nested.second-render-sees-own-props")
	zzAssert(strings.Contains(out1, "<u>after:|</u>") && strings.Contains(out2, "<u>after:|</u>"), "C05.nested.nothing-leaks-back")
}
