package vuego

import (
	"fmt"
	"strconv"
)

// C17 — the variable stack is a faithful scope stack with Go-like paths.

//verif:harness VerifC17_Ops quick.maxpaths=400000 thorough.maxpaths=3000000 timeout=2400 poolreuse
//verif:harness VerifC17_Paths quick.maxpaths=80000 thorough.maxpaths=400000 timeout=2400
//verif:harness VerifC17_PathBytes quick.maxpaths=60000 thorough.maxpaths=400000 timeout=2400 unwind=40
//verif:harness VerifC17_CacheFull confirmbounds quick.maxpaths=20000 thorough.maxpaths=20000 timeout=1200 steps=40000000
//verif:harness VerifC17_FieldNames quick.maxpaths=20000 thorough.maxpaths=100000 timeout=1800
//verif:harness VerifC17_Getters quick.maxpaths=20000 thorough.maxpaths=20000 timeout=1200

type zzC17Root struct {
	A  int    `json:"a"`
	B  string `json:",omitempty"` // options but no name: the key is the field name
	u  int
	In zzC17Inner
}

type zzC17Inner struct {
	C int `json:"c"`
}

// reference scope stack: a slice of maps over a root value
type zzRefStack struct {
	scopes []map[string]any
	root   any
}

func (r *zzRefStack) rootField(name string) (any, bool) {
	var s *zzC17Root
	switch x := r.root.(type) {
	case zzC17Root:
		s = &x
	case *zzC17Root:
		s = x
	}
	if s == nil {
		return nil, false
	}
	switch name {
	case "A", "a":
		return s.A, true
	case "B":
		return s.B, true
	case "In":
		return s.In, true
	}
	return nil, false
}

func (r *zzRefStack) lookup(name string) (any, bool) {
	for i := len(r.scopes) - 1; i >= 0; i-- {
		if v, ok := r.scopes[i][name]; ok {
			return v, true
		}
	}
	return r.rootField(name)
}

var zzC17Names = []string{"a", "b", "B"}

func zzSame(a any, aok bool, b any, bok bool) bool {
	if aok != bok {
		return false
	}
	if !aok {
		return true
	}
	return fmt.Sprint(a) == fmt.Sprint(b)
}

// VerifC17_Ops: every operation sequence over a small name universe behaves
// like a stack of scopes (differential against the reference above).
func VerifC17_Ops() {
	L := zzBound("L", 3, 4)
	var rootData any
	rootMap := map[string]any{}
	switch zzChoice("root", 6) {
	case 4: // root data only reachable through the fallback (no flattened copy in the root scope)
		rootData = zzC17Root{A: 100, B: "bee"}
	case 5:
		rootData = &zzC17Root{A: 100, B: "bee"}
	case 0:
		rootMap["a"] = 100
	case 1:
		rootData = zzC17Root{A: 100, B: "bee"}
		rootMap = toMapData(rootData)
	case 2:
		rootData = &zzC17Root{A: 100, B: "bee"}
		rootMap = toMapData(rootData)
	case 3:
	}
	s := NewStackWithData(rootMap, rootData)
	ref := &zzRefStack{root: rootData}
	rm := map[string]any{}
	for k, v := range rootMap {
		rm[k] = v
	}
	ref.scopes = []map[string]any{rm}
	next := 1
	for step := 0; step < L; step++ {
		switch zzChoice("op", 8) {
		case 7: // Set to nil: the name is bound (to nil) in the innermost scope and shadows outer bindings
			n := zzC17Names[zzChoice("name", len(zzC17Names))]
			s.Set(n, nil)
			ref.scopes[len(ref.scopes)-1][n] = nil
		case 6: // the caller changes the struct behind the root pointer: lookups and the merged environment follow
			if p, ok := rootData.(*zzC17Root); ok {
				p.A = 1000 + next
				p.B = "b" + strconv.Itoa(next)
				next++
			}
		case 0: // Push(nil)
			s.Push(nil)
			ref.scopes = append(ref.scopes, map[string]any{})
		case 1: // Push(map)
			n := zzC17Names[zzChoice("name", len(zzC17Names))]
			s.Push(map[string]any{n: next})
			ref.scopes = append(ref.scopes, map[string]any{n: next})
			next++
		case 2: // Pop (matched pops only)
			if len(ref.scopes) > 1 {
				s.Pop()
				ref.scopes = ref.scopes[:len(ref.scopes)-1]
			}
		case 3: // Set
			n := zzC17Names[zzChoice("name", len(zzC17Names))]
			s.Set(n, next)
			ref.scopes[len(ref.scopes)-1][n] = next
			next++
		case 4: // Copy, mutate the copy, original unchanged (and vice versa)
			c := s.Copy()
			n := zzC17Names[zzChoice("name", len(zzC17Names))]
			before, bok := s.Lookup(n)
			// the copy is a stack of its own: pop it as far as it allows
			// (however many scopes the copy has), then write to it
			if zzBool("popcopy") {
				for len(c.stack) > 1 {
					c.Pop()
				}
			}
			c.Set(n, -7)
			c.Push(map[string]any{n: -8})
			after, aok := s.Lookup(n)
			zzAssert(zzSame(before, bok, after, aok), "C17.ops.copy-independent")
			zk := "z" + strconv.Itoa(step)
			s.Set(zk, next)
			_, leaked := c.Lookup(zk)
			zzAssert(!leaked, "C17.ops.copy-sees-original")
			ref.scopes[len(ref.scopes)-1][zk] = next
			next++
		case 5: // ForEach over a scoped slice binds nothing permanently
			s.Set("xs", []int{1, 2})
			ref.scopes[len(ref.scopes)-1]["xs"] = []int{1, 2}
			cnt := 0
			_ = s.ForEach("xs", func(i int, v any) error {
				zzAssert(v.(int) == i+1, "C17.ops.foreach-item")
				cnt++
				return nil
			})
			zzAssert(cnt == 2, "C17.ops.foreach-count")
		}
		// after every step: Lookup, Resolve and EnvMap agree with the reference
		env := s.EnvMap()
		for _, n := range zzC17Names {
			want, wok := ref.lookup(n)
			got, gok := s.Lookup(n)
			zzAssert(zzSame(want, wok, got, gok), "C17.ops.lookup")
			rgot, rok := s.Resolve(n)
			zzAssert(zzSame(want, wok, rgot, rok), "C17.ops.resolve")
			egot, eok := env[n]
			zzAssert(zzSame(want, wok, egot, eok), "C17.ops.envmap-agrees")
		}
	}
}

// ---- paths ------------------------------------------------------------------------

type zzC17T struct {
	X int
	Y *int
	T string `json:"t"`
	u int
	t int // an unexported field spelled like the json name of an exported one
}

type zzC17Named map[string]any

// a struct with an embedded struct: C (json "c") is promoted
type zzC17Emb struct {
	zzC17Inner
	N string `json:"n"`
}

func zzC17Value() map[string]any {
	return map[string]any{
		"a": map[string]any{
			"b": []any{10, "s", map[string]any{"c": 1}},
			"m": map[string]string{"k": "v"},
		},
		"arr":  [2]int{7, 8},
		"p":    &zzC17T{X: 5, T: "tee"},
		"s":    zzC17T{X: 6, T: "tag", u: 9},
		"nilp": (*zzC17T)(nil),
		"sl":   []string{"x", "y"},
		"0":    "zero-key",
		"pa":   &[2]int{7, 8},
		"ps":   &[]string{"x", "y"},
		"tm":   map[string]int{"7": 70, "k": 1},
		"sm":   map[string]string{"k": "sv", "0": ""},
		"nm":   zzC17Named{"0": "named-zero", "k": "nk"},
		"sos":  []zzC17T{{X: 1, T: "one"}, {X: 2, T: "two"}},
		"pm":   &map[string]any{"k": "pk"},
		"emb":  zzC17Emb{zzC17Inner: zzC17Inner{C: 3}, N: "en"},
		"pemb": &zzC17Emb{zzC17Inner: zzC17Inner{C: 4}, N: "pn"},
		"am":   map[any]any{"k": "ak", 200: "n", "0": "az"},
	}
}

// zzC17Index is ordinary Go indexing over the value above, segment by segment.
func zzC17Index(cur any, seg string) (any, bool) {
	switch c := cur.(type) {
	case map[string]any:
		v, ok := c[seg]
		return v, ok && v != nil
	case map[string]string:
		v, ok := c[seg]
		return v, ok
	case []any:
		i, err := strconv.Atoi(seg)
		if err != nil || i < 0 || i >= len(c) {
			return nil, false
		}
		return c[i], true
	case []string:
		i, err := strconv.Atoi(seg)
		if err != nil || i < 0 || i >= len(c) {
			return nil, false
		}
		return c[i], true
	case [2]int:
		i, err := strconv.Atoi(seg)
		if err != nil || i < 0 || i >= len(c) {
			return nil, false
		}
		return c[i], true
	case *[2]int:
		if c == nil {
			return nil, false
		}
		return zzC17Index(*c, seg)
	case *[]string:
		if c == nil {
			return nil, false
		}
		return zzC17Index(*c, seg)
	case map[string]int:
		v, ok := c[seg]
		return v, ok
	case zzC17Named:
		v, ok := c[seg]
		return v, ok && v != nil
	case map[any]any:
		v, ok := c[seg]
		return v, ok && v != nil
	case *zzC17T:
		if c == nil {
			return nil, false
		}
		return zzC17Index(*c, seg)
	case []zzC17T:
		i, err := strconv.Atoi(seg)
		if err != nil || i < 0 || i >= len(c) {
			return nil, false
		}
		return c[i], true
	case *map[string]any:
		if c == nil {
			return nil, false
		}
		return zzC17Index(*c, seg)
	case *zzC17Emb:
		if c == nil {
			return nil, false
		}
		return zzC17Index(*c, seg)
	case zzC17Emb:
		switch seg {
		case "N", "n":
			return c.N, true
		case "C":
			return c.C, true // promoted through the embedded struct
		}
		return nil, false
	case zzC17T:
		switch seg {
		case "X":
			return c.X, true
		case "T", "t":
			return c.T, true
		case "Y":
			return zzNilPtr, true // a field holding a nil pointer: either answer is accepted
		}
		return nil, false
	}
	return nil, false
}

var zzNilPtr = (*int)(nil)

var zzC17Segs = []string{"a", "b", "m", "k", "c", "arr", "p", "s", "nilp", "sl", "X", "Y", "T", "t", "u", "0", "1", "2", "9", "-1", "zz", "pa", "ps", "tm", "nm", "7", "sos", "pm", "emb", "pemb", "N", "n", "C", "am", "sm"}

// VerifC17_Paths: every well-formed dotted / bracketed path of up to three
// segments resolves to what Go indexing reaches, or is reported absent.
func VerifC17_Paths() {
	depth := 1 + zzChoice("depth", zzBound("D", 2, 3))
	root := zzC17Value()
	s := NewStack(root)
	path := ""
	var cur any = root
	ok := true
	for d := 0; d < depth; d++ {
		seg := zzC17Segs[zzChoice("seg", len(zzC17Segs))]
		form := 0
		if d > 0 {
			form = zzChoice("form", 6)
		}
		switch form {
		case 0:
			if d > 0 {
				path += "."
			}
			path += seg
		case 1:
			path += "[" + seg + "]"
		case 2:
			path += "['" + seg + "']"
		case 3:
			path += `["` + seg + `"]`
		case 4: // blanks inside the brackets
			path += "[ '" + seg + "' ]"
		case 5:
			path += "[ " + seg + " ]"
		}
		if ok {
			cur, ok = zzC17Index(cur, seg)
		}
	}
	got, gok := s.Resolve(path)
	zzNote("path", path)
	if ok && cur == any(zzNilPtr) {
		return // Go indexing reaches a nil pointer value: presence is not specified
	}
	zzNote("want", fmt.Sprint(cur, ok))
	zzNote("got", fmt.Sprint(got, gok))
	zzAssert(gok == ok, "C17.path.presence")
	if ok {
		zzAssert(fmt.Sprint(got) == fmt.Sprint(cur), "C17.path.value")
	}
}

// VerifC17_PathBytes: an arbitrary short byte string as a path never panics
// and resolves identically on a second call (the split cache is transparent).
func VerifC17_PathBytes() {
	n := zzBound("N", 4, 6)
	p := zzStringIn("p", n, "a0.[]'\" ")
	s := NewStack(zzC17Value())
	v1, ok1 := s.Resolve(p)
	v2, ok2 := s.Resolve(p)
	zzAssert(ok1 == ok2, "C17.bytes.cache-transparent")
	if ok1 {
		zzAssert(fmt.Sprint(v1) == fmt.Sprint(v2), "C17.bytes.cache-value")
	}
}

// VerifC17_Getters: typed getters agree with Resolve.
func VerifC17_Getters() {
	root := map[string]any{"s": "str", "i": 7, "i8": int8(-3), "u": uint(9), "f": 2.5, "b": true, "n": "12", "bad": "x1",
		"sl": []int{1, 2}, "m": map[string]any{"k": 1}, "ms": map[string]string{"k": "v"}, "nil": nil}
	s := NewStack(root)
	names := []string{"s", "i", "i8", "u", "f", "b", "n", "bad", "sl", "m", "ms", "nil", "missing"}
	n := names[zzChoice("name", len(names))]
	v, ok := s.Resolve(n)
	str, sok := s.GetString(n)
	zzAssert(sok == (ok && v != nil), "C17.get.string-presence")
	if sok {
		zzAssert(str == fmt.Sprint(v), "C17.get.string-value")
	}
	iv, iok := s.GetInt(n)
	switch n {
	case "i":
		zzAssert(iok && iv == 7, "C17.get.int")
	case "i8":
		zzAssert(iok && iv == -3, "C17.get.int8")
	case "u":
		zzAssert(iok && iv == 9, "C17.get.uint")
	case "n":
		zzAssert(iok && iv == 12, "C17.get.numeric-string")
	case "f":
		zzAssert(iok && iv == 2, "C17.get.float")
	case "s", "bad", "b", "sl", "m", "ms", "nil", "missing":
		zzAssert(!iok, "C17.get.int-absent")
	}
	sl, slok := s.GetSlice(n)
	zzAssert(slok == (n == "sl"), "C17.get.slice-presence")
	if slok {
		zzAssert(len(sl) == 2 && sl[0].(int) == 1, "C17.get.slice-value")
	}
	m, mok := s.GetMap(n)
	zzAssert(mok == (n == "m" || n == "ms"), "C17.get.map-presence")
	if mok {
		zzAssert(len(m) == 1, "C17.get.map-value")
	}
}

// VerifC17_CacheFull: path resolution does not depend on how many distinct
// paths the process has resolved before (the split cache is bounded).
func VerifC17_CacheFull() {
	n := []int{0, 200, 255, 256, 257, 400}[zzChoice("before", 6)]
	root := zzC17Value()
	items := make([]any, 4)
	for i := range items {
		items[i] = map[string]any{"leaf": map[string]any{"name": "n" + strconv.Itoa(i)}}
	}
	root["items"] = items
	s := NewStack(root)
	for i := 0; i < n; i++ {
		_, _ = s.Resolve("filler" + strconv.Itoa(i) + ".x[" + strconv.Itoa(i) + "]")
	}
	probes := []string{"items[2].leaf.name", "a.b[2].c", "sl[1]", "p.X", "a.m.k", "items[3]['leaf'].name"}
	wants := []string{"n2", "1", "y", "5", "v", "n3"}
	k := zzChoice("probe", len(probes))
	got, ok := s.Resolve(probes[k])
	zzNote("path", probes[k])
	zzAssert(ok, "C17.cachefull.presence")
	zzAssert(fmt.Sprint(got) == wants[k], "C17.cachefull.value")
	cnt := 0
	_ = s.ForEach("items[1].leaf", func(i int, v any) error { cnt++; return nil })
	zzAssert(cnt == 1, "C17.cachefull.foreach")
}

// json names of which one is a prefix of another, declared longest first
type zzC17Tags struct {
	UserID int    `json:"user_id"`
	User   string `json:"user"`
	Name   string `json:"name,omitempty"`
}

// VerifC17_FieldNames: a struct step resolves exactly the Go field names and
// the json names - the names themselves, their proper prefixes, extensions
// and case variants - as a path step below a map, below a pointer, and as
// the root-data fallback of Lookup. (A solver variable for the name was
// tried first: the path splitter forks per byte and the query did not finish
// in 40 minutes, so the candidates are enumerated.)
func VerifC17_FieldNames() {
	names := []string{"user_id", "UserID", "user", "User", "name", "Name",
		"use", "na", "user_", "u", "nam", "Use", "UserI", "userid", "names", "user_id2", "n", "USER", "omitempty", "name,omitempty"}
	name := names[zzChoice("name", len(names))]
	root := zzC17Tags{UserID: 7, User: "u", Name: "n"}
	var want any
	wok := true
	switch name {
	case "user_id", "UserID":
		want = 7
	case "user", "User":
		want = "u"
	case "name", "Name":
		want = "n"
	default:
		wok = false
	}
	var got any
	var ok bool
	switch zzChoice("via", 4) {
	case 0:
		got, ok = NewStack(map[string]any{"acc": root}).Resolve("acc." + name)
	case 1:
		got, ok = NewStack(map[string]any{"acc": &root}).Resolve("acc['" + name + "']")
	case 2:
		got, ok = NewStackWithData(map[string]any{}, root).Lookup(name)
	case 3:
		got, ok = NewStackWithData(map[string]any{}, &root).Lookup(name)
	}
	zzNote("want", fmt.Sprint(want, wok))
	zzNote("got", fmt.Sprint(got, ok))
	zzAssert(ok == wok, "C17.fieldnames.presence")
	if wok {
		zzAssert(fmt.Sprint(got) == fmt.Sprint(want), "C17.fieldnames.value")
	}
}
