package vuego

import "golang.org/x/net/html"

// VerifC00_AttrSinkBound: a bound attribute value reaches renderAttrs; the
// serialised attribute must contain exactly the two delimiting quotes.
func VerifC00_AttrSinkBound() {
	val := zzString("val", 4)
	out := renderAttrs([]html.Attribute{{Key: "title", Val: val}})
	zzNote("out", out)
	zzCover(len(val) == 4, "full-length value reaches the sink")
	zzAssert(zzCountByte(out, '"') == 2, "C01.attr.breakout")
}

func VerifC00_ParseProbe() {
	body := `<div class="a" :title="x"><p v-if="ok">Hello {{ name }}</p><br></div>`
	t := NewFS(nil)
	var sb stringsBuilder
	err := t.Fill(map[string]any{"name": "world", "ok": true, "x": "t"}).RenderString(contextBackground(), &sb, body)
	zzNote("err", err)
	zzNote("out", sb.String())
}

func VerifC00_SymProbe() {
	body := `<div class="a" :title="x"><p v-if="ok">Hello {{ name }}</p></div>`
	t := NewFS(nil)
	var sb stringsBuilder
	name := zzString("name", 4)
	x := zzString("x", 4)
	err := t.Fill(map[string]any{"name": name, "ok": true, "x": x}).RenderString(contextBackground(), &sb, body)
	zzAssert(err == nil, "noerr")
	out := sb.String()
	zzNote("out", out)
	zzAssert(zzCountByte(out, '<') == 4, "C01.tagopen")
	zzAssert(zzCountByte(out, '"') == 4, "C01.quotes")
}
