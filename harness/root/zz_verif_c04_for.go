package vuego

import (
	"strconv"
	"strings"
)

// C04 — v-for renders one scoped instance per item, in order, and restores the scope.

//verif:harness VerifC04_Loop quick.maxpaths=60000 thorough.maxpaths=400000 timeout=2400
//verif:harness VerifC04_Bodies quick.maxpaths=40000 thorough.maxpaths=200000 timeout=1800
//verif:harness VerifC04_Fields quick.maxpaths=20000 thorough.maxpaths=100000 timeout=1800
//verif:harness VerifC04_Nested quick.maxpaths=20000 thorough.maxpaths=100000 timeout=1800

type zzC04Root struct {
	X  string
	Xs []string `json:"xs"`
}

// VerifC04_Loop: collection kind x length x loop form x variable shadowing x
// trailing v-else x per-item v-if x <template v-for>.
func VerifC04_Loop() {
	n := zzChoice("n", zzBound("maxlen", 3, 4)) // 0..2 / 0..3 items
	items := []string{"v0", "skip", "v2", "v3"}[:n]
	if n >= 1 && zzBool("allskip") {
		// every instance is filtered by its own v-if: the loop iterates but produces nothing
		items = []string{"skip", "skip", "skip", "skip"}[:n]
	}
	kind := zzChoice("kind", 8)
	varName := []string{"it", "x", "X"}[zzChoice("var", 3)]
	indexForm := zzBool("indexform")
	withElse := zzBool("else")
	withIf := zzBool("if")
	onTemplate := zzBool("template")
	structRoot := zzBool("structroot")
	exprRead := zzBool("exprread") // the item is also read through an expression

	// the collection
	var xs any
	nilFirst := false
	loops := true
	switch kind {
	case 0:
		a := make([]any, len(items))
		for i, s := range items {
			a[i] = s
		}
		if n >= 1 && zzBool("nilitem") {
			a[0] = nil // an untyped nil element is an item like any other
			items = append([]string{""}, items[1:]...)
			nilFirst = true
		}
		xs = a
	case 1:
		xs = append([]string{}, items...)
	case 2:
		a := make([]int, len(items))
		for i := range items {
			a[i] = 10 + i
		}
		xs = a
	case 3:
		if n != 2 {
			return
		}
		xs = [2]string{items[0], items[1]}
	case 4:
		if n != 0 {
			return
		}
		xs = []string(nil)
	case 5:
		if n != 0 {
			return
		}
		xs = nil // missing key
		loops = false
	case 6:
		if n != 0 {
			return
		}
		xs = 42 // not a collection
		loops = false
	case 7:
		if n != 2 {
			return
		}
		xs = &[2]string{items[0], items[1]}
		loops = false // pointers to arrays are not sequences for the engine
		return
	}
	_ = loops

	form := varName + " in xs"
	if indexForm {
		form = "(i, " + varName + ") in xs"
	}
	// the same forms written with other (legal) spacing
	switch zzChoice("spacing", zzBound("spacings", 2, 4)) {
	case 1:
		form = " " + strings.ReplaceAll(form, " in ", "  in  ") + " "
	case 2:
		form = strings.ReplaceAll(form, "(i, ", "(i,")
	case 3:
		form = strings.ReplaceAll(strings.ReplaceAll(form, "(i, ", "( i , "), ") in", " ) in")
	}
	cond := ""
	if withIf {
		cond = ` v-if="` + varName + ` != 'skip'"`
	}
	var body string
	inst := `[{{ i }}:{{ ` + varName + ` }}]`
	if exprRead {
		inst = `[{{ i }}:{{ ` + varName + ` }}{{ ` + varName + ` == nil ? '~' : '' }}]`
	}
	if onTemplate {
		body = `<template v-for="` + form + `"` + cond + `><b>` + inst + `</b></template>`
	} else {
		body = `<b v-for="` + form + `"` + cond + `>` + inst + `</b>`
	}
	if withElse {
		body += `<em v-else>EMPTY</em>`
	}
	body = `<div>` + body + `</div><p>after:{{ x }}:{{ X }}:{{ i }}:{{ it }}</p>`

	var data any
	if structRoot {
		if kind != 1 && kind != 4 {
			return
		}
		r := zzC04Root{X: "ROOTX"}
		if kind == 1 {
			r.Xs = xs.([]string)
		}
		data = r
	} else {
		m := map[string]any{"x": "OUTERx", "X": "OUTERX"}
		if kind != 5 {
			m["xs"] = xs
		}
		data = m
	}

	// reference
	var want strings.Builder
	produced := 0
	for j := range items {
		item := items[j]
		if kind == 2 {
			item = strconv.Itoa(10 + j)
		}
		if withIf && item == "skip" {
			continue
		}
		idx := ""
		if indexForm {
			idx = strconv.Itoa(j)
		}
		mark := ""
		if exprRead && nilFirst && j == 0 {
			mark = "~"
		}
		want.WriteString("[" + idx + ":" + item + mark + "]")
		produced++
	}
	wantElse := withElse && len(items) == 0
	if withIf && withElse && produced == 0 && len(items) > 0 {
		// every instance was filtered by its own v-if: the loop produced nothing
		wantElse = true
	}
	afterX, afterXX := "OUTERx", "OUTERX"
	if structRoot {
		afterX, afterXX = "", "ROOTX"
	}

	w := &zzWriter{limit: 1 << 20}
	err := NewFS(nil).Fill(data).RenderString(contextBackground(), w, body)
	out := string(w.got)
	zzNote("template", body)
	zzNote("out", out)
	if err != nil {
		zzNote("err", err.Error())
	}
	zzAssert(err == nil, "C04.loop.render-error")
	// instances in order
	var got strings.Builder
	rest := out
	for {
		p := strings.Index(rest, "[")
		if p < 0 {
			break
		}
		q := strings.Index(rest[p:], "]")
		got.WriteString(rest[p : p+q+1])
		rest = rest[p+q+1:]
	}
	zzNote("want", want.String())
	zzNote("got", got.String())
	zzAssert(got.String() == want.String(), "C04.loop.instances-in-order")
	zzAssert(strings.Contains(out, "EMPTY") == wantElse, "C04.loop.v-else-iff-nothing-produced")
	zzAssert(strings.Contains(out, "after:"+afterX+":"+afterXX+"::"), "C04.loop.scope-restored")
}

// VerifC04_Nested: nested loops compose; an inner loop variable that shadows
// the outer one is restored after the inner loop.
func VerifC04_Nested() {
	shape := zzChoice("shape", 4)
	rows := [][][]string{
		{{"a", "b"}, {"c"}},
		{{}, {"x"}},
		{{"p"}},
		{},
	}[shape]
	shadow := zzBool("shadow")
	inner := "c"
	if shadow {
		inner = "row"
	}
	body := `<div v-for="(r, row) in rows"><i v-for="` + inner + ` in row">{{ r }}{{ ` + inner + ` }}</i><u>#{{ r }}</u></div><p>after:{{ r }}{{ row }}{{ c }}</p>`
	anyRows := make([]any, len(rows))
	for i, r := range rows {
		anyRows[i] = r
	}
	w := &zzWriter{limit: 1 << 20}
	err := NewFS(nil).Fill(map[string]any{"rows": anyRows}).RenderString(contextBackground(), w, body)
	out := string(w.got)
	zzNote("out", out)
	zzAssert(err == nil, "C04.nested.render-error")
	var want strings.Builder
	for ri, r := range rows {
		for _, c := range r {
			want.WriteString(strconv.Itoa(ri) + c + ";")
		}
		want.WriteString("#" + strconv.Itoa(ri) + ";")
	}
	var got strings.Builder
	rest := out
	for {
		p1 := strings.Index(rest, "<i>")
		p2 := strings.Index(rest, "<u>")
		if p1 < 0 && p2 < 0 {
			break
		}
		p, closeTag := p1, "</i>"
		if p1 < 0 || (p2 >= 0 && p2 < p1) {
			p, closeTag = p2, "</u>"
		}
		q := strings.Index(rest[p:], closeTag)
		got.WriteString(rest[p+3:p+q] + ";")
		rest = rest[p+q:]
	}
	zzNote("want", want.String())
	zzNote("got", got.String())
	zzAssert(got.String() == want.String(), "C04.nested.compose")
	zzAssert(strings.Contains(out, "<p>after:</p>"), "C04.nested.scope-restored")
}

// VerifC04_Bodies: each instance sees its own item whatever construct the
// loop body uses to read it (text, attribute, v-text, v-html, include prop,
// slot content, nested element, <template> wrappers).
func VerifC04_Bodies() {
	bodies := []string{
		`{{ it }}`,
		`<b :title="it">{{ it }}</b>`,
		`<b v-text="it"></b>`,
		`<template v-html="it"></template>`,
		`<span><template v-html="it"></template></span>`,
		`<template include="c.vuego" :p="it"></template>`,
		`<div><template include="c.vuego" :p="it"></template></div>`,
		`<template include="s.vuego"><em>{{ it }}</em></template>`,
		`<template v-if="it != 'zz'"><i>{{ it }}</i></template>`,
		`<template :q="it"><u>{{ q }}</u></template>`,
	}
	k := zzChoice("body", len(bodies))
	n := 1 + zzChoice("n", 3)
	root := []string{"li", "template"}[zzChoice("root", 2)]
	items := []string{"aa", "bb", "cc"}[:n]
	body := `<ul><` + root + ` v-for="it in items">` + bodies[k] + `</` + root + `></ul>`
	fsys := newZZFS(map[string]string{"c.vuego": `<em>{{ p }}</em>`, "s.vuego": `<section><slot></slot></section>`})
	out, err := zzRenderVia(zzEntry(), fsys, nil, body, map[string]any{"items": items})
	zzNote("template", body)
	zzNote("out", out)
	zzAssert(err == nil, "C04.bodies.render-error")
	pos := 0
	for _, it := range items {
		p := strings.Index(out[pos:], it)
		zzAssert(p >= 0, "C04.bodies.instance-sees-its-own-item")
		pos += p + len(it)
	}
	for _, it := range items {
		cnt := strings.Count(out, it)
		want := 1
		if k == 1 {
			want = 2
		}
		zzAssert(cnt == want, "C04.bodies.item-count")
	}
}

type zzC04User struct {
	Name string
	Nick string
	Tags []string
}

// VerifC04_Fields: fields of the item are read through the loop variable
// only: an item that lacks a field (or whose field is empty) shows nothing,
// even when the loop variable shadows a root value that has that field, and
// a nested loop over an item's missing collection renders its v-else.
func VerifC04_Fields() {
	shadow := zzBool("shadow")
	asStruct := zzBool("struct")
	rootIsStruct := zzBool("rootstruct")
	v := "u"
	if shadow {
		v = "user"
	}
	n := 1 + zzChoice("n", 2)
	var items []any
	var want strings.Builder
	for k := 0; k < n; k++ {
		hasNick := zzBool("hasnick")
		hasTags := zzBool("hastags")
		name := "n" + strconv.Itoa(k)
		nick, tags := "", []string(nil)
		if hasNick {
			nick = "k" + strconv.Itoa(k)
		}
		if hasTags {
			tags = []string{"t" + strconv.Itoa(k)}
		}
		if asStruct {
			items = append(items, zzC04User{Name: name, Nick: nick, Tags: tags})
		} else {
			m := map[string]any{"Name": name}
			if hasNick {
				m["Nick"] = nick
			}
			if hasTags {
				m["Tags"] = tags
			}
			items = append(items, m)
		}
		want.WriteString("[" + name + "/" + nick + ":")
		if hasTags {
			want.WriteString("<" + tags[0] + ">")
		} else {
			want.WriteString("none")
		}
		want.WriteString("]")
	}
	outerUser := any(map[string]any{"Name": "OUTER", "Nick": "BOSS", "Tags": []string{"OT"}})
	if rootIsStruct {
		outerUser = zzC04User{Name: "OUTER", Nick: "BOSS", Tags: []string{"OT"}}
	}
	body := `<ul><li v-for="` + v + ` in users" :title="` + v + `.Nick">[{{ ` + v + `.Name }}/{{ ` + v + `.Nick }}:<i v-for="t in ` + v + `.Tags">&lt;{{ t }}&gt;</i><i v-else>none</i>]</li></ul><p>after:{{ user.Nick }}</p>`
	out, err := zzRenderVia(zzEntry(), nil, nil, body, map[string]any{"users": items, "user": outerUser})
	zzNote("template", body)
	zzNote("out", out)
	zzAssert(err == nil, "C04.fields.render-error")
	flat := zzFlat(out)
	// strip the markup inside the brackets
	flat = strings.ReplaceAll(strings.ReplaceAll(flat, "<i>", ""), "</i>", "")
	flat = strings.ReplaceAll(strings.ReplaceAll(flat, "&lt;", "<"), "&gt;", ">")
	var got strings.Builder
	rest := flat
	for {
		p := strings.Index(rest, "[")
		if p < 0 {
			break
		}
		q := strings.Index(rest[p:], "]")
		got.WriteString(rest[p : p+q+1])
		rest = rest[p+q+1:]
	}
	zzNote("want", want.String())
	zzNote("got", got.String())
	zzAssert(got.String() == want.String(), "C04.fields.item-fields-only")
	zzAssert(strings.Contains(flat, "after:BOSS"), "C04.fields.scope-restored")
	zzAssert(strings.Count(flat, `title="BOSS"`) == 0, "C04.fields.bound-attribute-sees-outer-value")
}
