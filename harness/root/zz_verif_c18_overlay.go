package vuego

import (
	"io/fs"
	"sort"
	"strings"
)

// C18 — an overlay filesystem serves every path from the first layer that has it.

//verif:harness VerifC18_Overlay quick.maxpaths=200000 thorough.maxpaths=2000000 timeout=3000

// "d-1/x" and "d/x": directory order (d, d-1) and string order (d-1/x, d/x) differ
var zzC18Paths = []string{"f", "d/x", "d-1/x", "d/y", "e/z"}

// per layer and path: 0 absent, 1 file, 2 directory-only (for d/x: directory d/x with a child)
func zzC18Layer(id int, npaths int) (*zzFS, map[string]int) {
	files := map[string]string{}
	state := map[string]int{}
	for _, p := range zzC18Paths[:npaths] {
		st := zzChoice("st", 3)
		state[p] = st
		switch st {
		case 1:
			files[p] = "L" + string(rune('0'+id)) + ":" + p
		case 2:
			files[p+"/k"] = "L" + string(rune('0'+id)) + ":" + p + "/k"
		}
	}
	return newZZFS(files), state
}

type zzC18Ref struct {
	layers []*zzFS // nil entries skipped
}

func (r zzC18Ref) open(name string) (string, bool, bool) { // content, isDir, found
	for _, l := range r.layers {
		if l == nil {
			continue
		}
		if c, ok := l.files[name]; ok {
			return c, false, true
		}
		if l.isDir(name) {
			return "", true, true
		}
	}
	return "", false, false
}

func (r zzC18Ref) readDir(name string) ([]string, map[string]bool, bool) {
	seen := map[string]bool{}
	isDir := map[string]bool{}
	found := false
	var names []string
	for _, l := range r.layers {
		if l == nil {
			continue
		}
		ents, err := l.ReadDir(name)
		if err != nil {
			continue
		}
		found = true
		for _, e := range ents {
			if !seen[e.Name()] {
				seen[e.Name()] = true
				isDir[e.Name()] = e.IsDir()
				names = append(names, e.Name())
			}
		}
	}
	sort.Strings(names)
	return names, isDir, found
}

// VerifC18_Overlay: differential against a union model for every stack of
// layers over the path universe.
func VerifC18_Overlay() {
	nl := zzBound("layers", 3, 3)
	np := zzBound("paths", 3, 4)
	var real []fs.FS
	ref := zzC18Ref{}
	anyLayer := false
	for i := 0; i < nl; i++ {
		if zzBool("nil") {
			real = append(real, nil)
			ref.layers = append(ref.layers, nil)
			continue
		}
		l, _ := zzC18Layer(i, np)
		real = append(real, l)
		ref.layers = append(ref.layers, l)
		anyLayer = true
	}
	var o *OverlayFS
	if zzBool("sharedLowerSlice") {
		// the lower layers are passed as a spread slice with spare capacity
		// that the caller goes on using for a second overlay
		lowers := make([]fs.FS, 0, 8)
		lowers = append(lowers, real[1:]...)
		o = NewOverlayFS(real[0], lowers...)
		other := NewOverlayFS(newZZFS(map[string]string{"f": "OTHER", "zz/q": "OTHER"}), lowers...)
		_, _ = other.ReadDir(".")
		for i := range lowers {
			zzAssert(lowers[i] == real[1+i], "C18.ctor.callers-slice-modified")
		}
	} else {
		o = NewOverlayFS(real[0], real[1:]...)
	}

	// Open / ReadFile / Stat for every path of the universe and some directories
	queries := append([]string{}, zzC18Paths[:np]...)
	queries = append(queries, "d", "nope", "d/x/k")
	for _, q := range queries {
		want, wantDir, found := ref.open(q)
		data, err := fs.ReadFile(o, q)
		st, serr := fs.Stat(o, q)
		zzNote("query", q)
		if !found {
			zzAssert(serr != nil, "C18.open.absent-reports-error")
			continue
		}
		zzAssert(serr == nil, "C18.open.present")
		zzAssert(st.IsDir() == wantDir, "C18.open.kind-from-first-layer")
		if wantDir {
			// the first layer that has the path decides: a directory there is
			// not readable as a file, whatever lower layers hold
			zzAssert(err != nil, "C18.open.directory-shadows-lower-file")
		}
		if !wantDir {
			zzAssert(err == nil && string(data) == want, "C18.open.content-from-first-layer")
			zzAssert(st.Size() == int64(len(want)), "C18.open.metadata-from-first-layer")
		}
	}

	// directory listings
	for _, d := range []string{".", "d", "e", "nope", "d/x"} {
		wantNames, wantIsDir, found := ref.readDir(d)
		ents, err := o.ReadDir(d)
		zzNote("dir", d)
		if !found {
			if anyLayer {
				zzAssert(err != nil, "C18.readdir.absent-reports-error")
			}
			continue
		}
		zzAssert(err == nil, "C18.readdir.present")
		var got []string
		for _, e := range ents {
			got = append(got, e.Name())
			zzAssert(e.IsDir() == wantIsDir[e.Name()], "C18.readdir.entry-from-first-layer")
		}
		zzNote("want", strings.Join(wantNames, ","))
		zzNote("got", strings.Join(got, ","))
		zzAssert(strings.Join(got, ",") == strings.Join(wantNames, ","), "C18.readdir.sorted-union")
	}

	// glob
	for _, pat := range []string{"*", "d/*", "*/x", "*/*"} {
		got, err := o.Glob(pat)
		zzAssert(err == nil, "C18.glob.no-error")
		set := map[string]bool{}
		for _, l := range ref.layers {
			if l == nil {
				continue
			}
			m, _ := fs.Glob(l, pat)
			for _, x := range m {
				set[x] = true
			}
		}
		var want []string
		for x := range set {
			want = append(want, x)
		}
		sort.Strings(want)
		zzAssert(strings.Join(got, ",") == strings.Join(want, ","), "C18.glob.sorted-union")
	}
}
