package vuego

import (
	"strings"
)

// C08 — every variable is chosen by one fixed precedence of data sources.

//verif:harness VerifC08_Precedence quick.maxpaths=60000 thorough.maxpaths=400000 timeout=2400
//verif:harness VerifC08_Tree quick.maxpaths=60000 thorough.maxpaths=400000 timeout=2400

type zzC08Data struct {
	K     string `json:"k"`
	Other string
}

// the key is the Go field name when the tag carries options but no name
type zzC08DataNoName struct {
	K     string `json:",omitempty"`
	Other string `json:"other,omitempty"`
}

// the page prints k in every read position
const zzC08PageK = `<p :title="k">[{{ k }}]</p>` +
	`<i v-if="k == 'FM'">is-FM</i><i v-if="k == 'ASSIGN'">is-ASSIGN</i><i v-if="k == 'FILL'">is-FILL</i>` +
	`<i v-if="k == 'DATA'">is-DATA</i><i v-if="k == 'THEME'">is-THEME</i>`

// zzC08Page prints the key kn ("k" or "K") in every read position.
func zzC08Page(kn string) string {
	if kn == "k" {
		return zzC08PageK
	}
	return strings.ReplaceAll(strings.ReplaceAll(strings.ReplaceAll(zzC08PageK, `"k"`, `"`+kn+`"`), "{{ k }}", "{{ "+kn+" }}"), `"k ==`, `"`+kn+` ==`)
}

// VerifC08_Precedence: every subset of the five sources defining k, map vs
// struct vs pointer data, Fill/Assign order; the value is the first present
// source and identical in {{ }}, bound attribute, v-if and Get.
func VerifC08_Precedence() {
	inFM := zzBool("frontmatter")
	inFill := zzBool("fill")
	inAssign := zzBool("assign")
	inData := zzBool("datayml")
	inTheme := zzBool("theme")
	shape := zzChoice("shape", 5) // map, struct, *struct, struct and *struct whose tag has options but no name
	kn := "k"
	if shape >= 3 {
		kn = "K"
	}
	// the Fill value may be the empty string: present, and it still wins over lower sources
	fillVal := "FILL"
	if zzBool("fillEmpty") {
		fillVal = ""
	}
	assignFirst := zzBool("assignBeforeFill")
	nilIn := zzChoice("definedWithNil", 3) // 0 nobody, 1 the front-matter, 2 Assign: the key is present with a nil value

	files := map[string]string{}
	page := zzC08Page(kn)
	if inFM {
		if nilIn == 1 {
			page = "---\n" + kn + ":\n---\n" + page
		} else {
			page = "---\n" + kn + ": FM\n---\n" + page
		}
	}
	// the page may include a component whose own front-matter defines the
	// same key: that value belongs to the component, the page's reads after
	// the include still follow the page's sources
	switch zzChoice("includesComponent", 3) {
	case 1:
		files["comp.vuego"] = "---\nk: COMP\nK: COMP\n---\n<s>c{{ k }}</s>"
		page = strings.Replace(page, "<p ", `<template include="comp.vuego"></template><p `, 1)
	case 2:
		files["comp.vuego"] = "---\nk: COMP\nK: COMP\n---\n<s>c{{ k }}</s>"
		page = strings.Replace(page, "<p ", `<template include="comp.vuego" z="1"></template><p `, 1)
	}
	// the page may sit under a chain of two layouts; the middle one defines
	// the key in its own front-matter (visible inside that layout only), the
	// outer one reads it: it sees what the page's sources say
	chain := zzBool("layoutChain")
	if chain {
		if strings.HasPrefix(page, "---\n") {
			page = "---\nlayout: post\n" + page[4:]
		} else {
			page = "---\nlayout: post\n---\n" + page
		}
		files["layouts/post.vuego"] = "---\nlayout: outer\nk: POST\nK: POST\n---\n<div v-html=\"content\"></div><u>[P:{{ " + kn + " }}]</u>"
		files["layouts/outer.vuego"] = "<main v-html=\"content\"></main><b>[B:{{ " + kn + " }}]</b>"
	}
	files["page.vuego"] = page
	if inData {
		files["data/site.yml"] = kn + ": DATA\nd: D\n"
	}
	if inTheme {
		files["theme.yml"] = kn + ": THEME\nth: T\n"
	}
	fsys := newZZFS(files)
	tpl := NewFS(fsys)

	var fillData any
	switch shape {
	case 0:
		m := map[string]any{"other": "O"}
		if inFill {
			m["k"] = fillVal
		}
		fillData = m
	case 1:
		d := zzC08Data{Other: "O"}
		if inFill {
			d.K = fillVal
		} else {
			return // a struct always defines its fields; absence is not expressible
		}
		fillData = d
	case 2:
		d := &zzC08Data{Other: "O"}
		if inFill {
			d.K = fillVal
		} else {
			return
		}
		fillData = d
	case 3, 4:
		d := zzC08DataNoName{Other: "O"}
		if inFill {
			d.K = fillVal
		} else {
			return
		}
		fillData = d
		if shape == 4 {
			fillData = &d
		}
	}
	loaded := tpl.Load("page.vuego")
	if assignFirst {
		if inAssign {
			loaded = loaded.Assign(kn, zzC08AssignVal(nilIn))
		}
		loaded = loaded.Fill(fillData)
	} else {
		loaded = loaded.Fill(fillData)
		if inAssign {
			loaded = loaded.Assign(kn, zzC08AssignVal(nilIn))
		}
	}

	if assignFirst && inAssign && !inFill {
		// Assign followed by a Fill that does not mention the key: Fill is
		// documented to "set all variables", the statement only fixes the
		// outcome for the same key; not asserted either way.
		return
	}
	// reference: front-matter, then Fill/Assign (later call wins), then data/*.yml, then theme.yml
	want := ""
	switch {
	case inFM:
		want = "FM"
	case inFill && inAssign:
		if assignFirst {
			want = fillVal
		} else {
			want = "ASSIGN"
		}
	case inAssign:
		want = "ASSIGN"
	case inFill:
		want = fillVal
	case inData:
		want = "DATA"
	case inTheme:
		want = "THEME"
	}

	// a key that is present with a nil value still ends the search: nothing is printed
	if (want == "FM" && nilIn == 1) || (want == "ASSIGN" && nilIn == 2) {
		want = ""
	}

	w := &zzWriter{limit: 1 << 20}
	err := loaded.Render(contextBackground(), w)
	out := string(w.got)
	w2 := &zzWriter{limit: 1 << 20}
	err2 := loaded.Render(contextBackground(), w2)
	zzAssert(err2 == nil && string(w2.got) == out, "C08.precedence.second-render-differs")
	zzNote("out", out)
	zzNote("want", want)
	zzAssert(err == nil, "C08.precedence.render-error")
	zzAssert(strings.Contains(out, "["+want+"]"), "C08.precedence.interpolation")
	if chain {
		zzAssert(strings.Contains(out, "[P:POST]"), "C08.precedence.layout-own-front-matter")
		// the middle layout's own front-matter is visible in that layout only
		zzAssert(!strings.Contains(out, "[B:POST]"), "C08.precedence.layout-front-matter-leaks-to-the-next-layout")
		if !inFM && nilIn == 0 {
			// for a key the page's front-matter does not define, the outer
			// layout (which has no front-matter of its own) follows the
			// order of the remaining sources; how a page's front-matter
			// ranks against Fill / Assign inside a layout is not fixed by
			// the statement and not asserted
			zzAssert(strings.Contains(out, "[B:"+want+"]"), "C08.precedence.outer-layout-sees-the-page-sources")
		}
	}
	if want != "" {
		zzAssert(strings.Contains(out, `title="`+want+`"`), "C08.precedence.bound-attribute")
		zzAssert(strings.Contains(out, "is-"+want), "C08.precedence.v-if")
		zzAssert(strings.Count(out, "is-") == 1, "C08.precedence.v-if-unique")
	} else {
		zzAssert(!strings.Contains(out, "title="), "C08.precedence.bound-attribute-absent")
		zzAssert(strings.Count(out, "is-") == 0, "C08.precedence.v-if-absent")
	}
	if !inFM {
		// Get reads the template's own variables (front-matter is re-applied at render time)
		zzAssert(loaded.Get(kn) == want, "C08.precedence.get")
	}
}

func zzC08AssignVal(nilIn int) any {
	if nilIn == 2 {
		return nil
	}
	return "ASSIGN"
}

// VerifC08_Tree: operations on a template created with New/Load never change
// what its parent or siblings see.
func VerifC08_Tree() {
	L := zzBound("L", 2, 3)
	withFS := zzBool("withfs")
	var base Template
	cfgJ := "" // what the configuration files say about j (the lowest source)
	if withFS {
		files := map[string]string{"page.vuego": "---\nfmk: FMK\n---\n<p>x</p>"}
		if zzBool("withconfig") {
			files["theme.yml"] = "j: CFG\nth: T\n"
			cfgJ = "CFG"
		}
		base = NewFS(newZZFS(files))
	} else {
		base = New()
	}
	switch zzChoice("basefill", 3) {
	case 1:
		base = base.Fill(map[string]any{"k": "BASE"})
	case 2:
		base = base.Assign("k", "BASE")
	}
	tpls := []Template{base}
	// what each template must see for the keys k, j
	want := []map[string]string{{"k": base.Get("k"), "j": cfgJ}}
	if bf := base.Get("j"); bf != cfgJ {
		zzAssert(false, "C08.tree.j-isolated")
	}
	for step := 0; step < L; step++ {
		target := zzChoice("target", len(tpls))
		switch zzChoice("op", 5) {
		case 0: // New
			tpls = append(tpls, tpls[target].New())
			want = append(want, map[string]string{"k": want[target]["k"], "j": want[target]["j"]})
		case 1: // Load
			if !withFS {
				break
			}
			tpls = append(tpls, tpls[target].Load("page.vuego"))
			want = append(want, map[string]string{"k": want[target]["k"], "j": want[target]["j"]})
		case 2: // Assign k
			v := "A" + string(rune('0'+step))
			tpls[target].Assign("k", v)
			want[target]["k"] = v
		case 3: // Assign j
			v := "J" + string(rune('0'+step))
			tpls[target].Assign("j", v)
			want[target]["j"] = v
		case 4: // Fill replaces the passed data of that template
			v := "F" + string(rune('0'+step))
			tpls[target].Fill(map[string]any{"k": v})
			want[target]["k"] = v
			want[target]["j"] = cfgJ // a Fill that does not mention j leaves the configuration's value
		}
		for i := range tpls {
			zzNote("template", i)
			zzAssert(tpls[i].Get("k") == want[i]["k"], "C08.tree.k-isolated")
			zzAssert(tpls[i].Get("j") == want[i]["j"], "C08.tree.j-isolated")
		}
	}
}
