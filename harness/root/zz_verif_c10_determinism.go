package vuego

import (
	"fmt"
	"strings"

	"golang.org/x/net/html"
)

// C10 — output depends only on the call's own templates and data, byte for byte.

//verif:harness VerifC10_MapOrder quick.maxpaths=60000 thorough.maxpaths=400000 timeout=2400 maporder=evalAttributes,mergeStyles,setStyleProperty,evalTemplate,evalInclude,evalSlot,buildStyleString,buildClassString,parseStyleMap,parseStyleString,evalObjectBinding,parseObjectPairs,evalClassObject
//verif:harness VerifC10_History poolreuse=lifo quick.maxpaths=60000 thorough.maxpaths=400000 timeout=2400 steps=30000000
//verif:harness VerifC10_Files poolreuse=lifo quick.maxpaths=20000 thorough.maxpaths=100000 timeout=1800
//verif:harness VerifC10_CallerData quick.maxpaths=20000 thorough.maxpaths=100000 timeout=1800

var zzC10Programs = []string{
	/* 0 */ `<p :title="t" :data-a="a" :data-b="b" class="k" :class="c">x</p>`,
	/* 1 */ `<p style="color:red;margin:0" :style="{fontSize: '12px', color: 'blue'}" v-show="no">s</p>`,
	/* 2 */ `<div><template include="c.vuego" :p="a" :q="b" r="{{ t }}"></template></div>`,
	/* 3 */ `<ul><li v-for="(i, it) in items" :data-i="i" :title="it">{{ it }}</li></ul>`,
	/* 4 */ `<i v-if="n == 1">single</i><i v-else>multiple</i><b>{{ n + 1 }}</b>`,
	/* 5 */ `<div><template include="s.vuego"><template v-slot="sp"><em :a="sp.x" :b="sp.y">{{ sp.x }}</em></template></template></div>`,
	/* 6 */ `<p>{{ t | nofn }}</p>`,
	/* 7 */ `<p v-once>once</p><p v-for="i in items" v-once>loop</p>`,
	/* 8 */ `<p>Dear {{ t | nofn }} tail</p>`,
	/* 9 */ `<template :greeting="'hello'" :cnt="n"></template><b>{{ greeting }}{{ cnt }}</b>`,
	/* 10 */ `<i>[{{ greeting | default("none") }}][{{ cnt | default("none") }}]</i>`,
	/* 11 */ `<p title="pre {{ t }}">{{ t | upper | lower }}</p>`,
	/* 12 */ `<p>{{ keys['first name'] }}|{{ keys["a b"] }}</p>`,
	/* 13 */ `<p>{{ keys['firstname'] }}|{{ keys["ab"] }}|{{ keys.ab }}</p>`,
	// compiled expressions whose texts differ by blanks inside a string literal only
	/* 14 */ `<p>{{ a + '-' + 'x y' }}</p><i v-if="t + ' 1' == 'T 1' || t + ' 1' == 'T2 1'">narrow</i>`,
	/* 15 */ `<p>{{ a + '-' + 'x  y' }}</p><i v-if="t + ' 1' == 'T  1' || t + ' 1' == 'T2  1'">wide</i>`,
}

func zzC10FS() *zzFS {
	return newZZFS(map[string]string{
		"c.vuego":    "---\nfm1: F1\nfm2: F2\n---\n<span :p=\"p\" :q=\"q\" :fm=\"fm1\">{{ p }}{{ q }}{{ r }}{{ fm2 }}</span>",
		"s.vuego":    `<section><slot :x="a" :y="b"></slot></section>`,
		"page.vuego": "---\nk1: one\nk2: two\n---\n<p :a=\"k1\" :b=\"k2\">{{ k1 }}{{ k2 }}{{ t }}</p>",
	})
}

var zzC10Keys = map[string]any{"first name": "SPACED", "firstname": "COMPACT", "a b": "S2", "ab": "C2"}

func zzC10Data(variant int) map[string]any {
	switch variant {
	case 1:
		return map[string]any{"t": "T2", "a": "A2", "b": 2.0, "c": "cc", "no": false, "items": []string{"y"}, "n": 1.0, "keys": zzC10Keys}
	}
	return map[string]any{"t": "T", "a": "A", "b": 7, "c": "dyn", "no": false, "items": []string{"x", "y"}, "n": 1, "keys": zzC10Keys}
}

// VerifC10_MapOrder: inside the listed functions every range over a map is
// an arbitrary permutation; two renders of the same program must still give
// byte-identical output.
func VerifC10_MapOrder() {
	k := zzChoice("program", 6)
	tpl := NewFS(zzC10FS())
	out1, err1 := zzRender(tpl, zzC10Programs[k], zzC10Data(0))
	out2, err2 := zzRender(tpl, zzC10Programs[k], zzC10Data(0))
	zzNote("program", zzC10Programs[k])
	zzNote("out1", out1)
	zzNote("out2", out2)
	zzAssert(err1 == nil && err2 == nil, "C10.maporder.render-error")
	zzAssert(out1 == out2, "C10.maporder.output-depends-on-map-iteration-order")
}

// VerifC10_History: a render on a long-used engine (after other programs,
// including a failing one, with pooled objects being reused) gives the same
// bytes as the same render on a fresh engine.
func VerifC10_History() {
	L := zzBound("L", 2, 3)
	fsys := zzC10FS()
	// how the engine is built and fed: with a filesystem and Fill, or the
	// filesystem-less New() with variables given through Assign only
	mkEngine := func() Template { return NewFS(fsys) }
	render := zzRender
	nofs := false
	if zzBool("assignOnly") {
		mkEngine = func() Template { return New(WithFS(fsys)) }
		if zzBool("nofs") {
			nofs = true
			mkEngine = func() Template { return New() }
		}
		render = func(tpl Template, body string, data map[string]any) (string, error) {
			t := tpl.New()
			for _, k := range []string{"t", "a", "b", "c", "no", "items", "n", "keys"} {
				t = t.Assign(k, data[k])
			}
			w := &zzWriter{limit: 1 << 20}
			err := t.RenderString(contextBackground(), w, body)
			return string(w.got), err
		}
	}
	used := mkEngine()
	for step := 0; step < L; step++ {
		k := zzChoice("program", len(zzC10Programs))
		v := zzChoice("data", 2)
		out, err := render(used, zzC10Programs[k], zzC10Data(v))
		fresh, ferr := render(mkEngine(), zzC10Programs[k], zzC10Data(v))
		zzNote("program", zzC10Programs[k])
		zzNote("used", out)
		zzNote("fresh", fresh)
		zzAssert((err == nil) == (ferr == nil), "C10.history.error-differs-from-fresh-engine")
		zzAssert(out == fresh, "C10.history.output-differs-from-fresh-engine")
		// process-wide caches are shared by the fresh engine too: these
		// programs also have an absolute expectation
		if want, ok := map[int]string{12: "SPACED|S2", 13: "COMPACT|C2|C2", 14: "-x y</p>", 15: "-x  y</p>"}[k]; ok && err == nil {
			zzAssert(strings.Contains(out, want) && !strings.Contains(out, "wide"), "C10.history.output-depends-on-earlier-renders")
			zzAssert(strings.Contains(out, "narrow") == (k == 14), "C10.history.output-depends-on-earlier-renders")
		}
	}
	if nofs {
		return
	}
	// the file entry point as well (template cache)
	w1 := &zzWriter{limit: 1 << 20}
	e1 := used.Fill(zzC10Data(0)).RenderFile(contextBackground(), w1, "page.vuego")
	w2 := &zzWriter{limit: 1 << 20}
	e2 := used.Fill(zzC10Data(0)).RenderFile(contextBackground(), w2, "page.vuego")
	zzAssert(e1 == nil && e2 == nil, "C10.history.file-render-error")
	zzAssert(string(w1.got) == string(w2.got), "C10.history.repeated-file-render-differs")
}

func zzDomSig(nodes []*html.Node) string {
	var sb strings.Builder
	var walk func(n *html.Node)
	walk = func(n *html.Node) {
		sb.WriteString(fmt.Sprint(n.Type) + ":" + n.Data)
		for _, a := range n.Attr {
			sb.WriteString(" " + a.Key + "=" + a.Val)
		}
		sb.WriteString("(")
		for c := n.FirstChild; c != nil; c = c.NextSibling {
			walk(c)
		}
		sb.WriteString(")")
	}
	for _, n := range nodes {
		walk(n)
	}
	return sb.String()
}

// VerifC10_CallerData: rendering modifies neither the caller's data nor the
// loaded (cached) template.
func VerifC10_CallerData() {
	entry := zzChoice("entry", 3)
	fsys := zzC10FS()
	data := zzC10Data(0)
	inner := map[string]any{"z": 1}
	data["nested"] = inner
	before := fmt.Sprint(len(data), data["t"], data["k1"], data["fm1"], len(inner))
	vue := NewVue(fsys)
	w := &zzWriter{limit: 1 << 20}
	var err error
	switch entry {
	case 0:
		err = vue.Render(w, "page.vuego", data)
	case 1:
		err = vue.RenderFragment(w, "page.vuego", data)
	case 2:
		err = NewFS(fsys).Fill(data).RenderFile(contextBackground(), w, "page.vuego")
	}
	zzAssert(err == nil, "C10.caller.render-error")
	after := fmt.Sprint(len(data), data["t"], data["k1"], data["fm1"], len(inner))
	zzNote("before", before)
	zzNote("after", after)
	zzAssert(before == after, "C10.caller.data-modified")
	if entry == 0 {
		// the cached DOM is the same before and after a second render
		_, dom1, _ := vue.loadCachedWithFrontMatter("page.vuego")
		sig1 := zzDomSig(dom1)
		w2 := &zzWriter{limit: 1 << 20}
		_ = vue.Render(w2, "page.vuego", zzC10Data(1))
		_, dom2, _ := vue.loadCachedWithFrontMatter("page.vuego")
		zzAssert(zzDomSig(dom2) == sig1, "C10.caller.cached-template-modified")
		zzAssert(len(dom1) == len(dom2) && (len(dom1) == 0 || dom1[0] == dom2[0]), "C10.caller.cache-entry-replaced-without-change")
	}
}

// VerifC10_Files: the same for loaded files: pages in different directories
// (whose layout names resolve differently), rendered in any order on one
// engine, come out as on a fresh engine.
func VerifC10_Files() {
	L := zzBound("LF", 2, 3)
	files := map[string]string{
		"blog/post.vuego":    "---\nlayout: wrap\ntitle: B\n---\n<p>post {{ title }} {{ t }}</p>",
		"blog/wrap.vuego":    `<div class="blog"><span v-html="content"></span>{{ title }}</div>`,
		"docs/page.vuego":    "---\nlayout: wrap\ntitle: D\n---\n<p>page {{ title }} {{ t }}</p>",
		"layouts/wrap.vuego": `<div class="site"><span v-html="content"></span>{{ title }}</div>`,
		"plain.vuego":        "---\ntitle: P\n---\n<p>plain {{ title }} {{ t }}</p>",
		"docs/other.vuego":   "---\nlayout: wrap.vuego\n---\n<p>other {{ t }}</p>",
	}
	// a page that counts in its own front-matter key at top level
	files["count.vuego"] = "---\ncount: 0\nlabel: first\n---\n<template :count=\"count + 1\" label=\"seen\"></template><p>{{ label }} {{ count }}</p>"
	pages := []string{"blog/post.vuego", "docs/page.vuego", "plain.vuego", "docs/other.vuego", "count.vuego"}
	fsys := newZZFS(files)
	used := NewFS(fsys)
	usedVue := NewVue(fsys)
	// through the template API with data, or through Vue.Render with no data at all
	bare := zzBool("vueRenderWithoutData")
	render := func(tpl Template, vue *Vue, page string, v int) (string, error) {
		w := &zzWriter{limit: 1 << 20}
		if bare {
			err := vue.Render(w, page, nil)
			return string(w.got), err
		}
		err := tpl.Load(page).Fill(zzC10Data(v)).Render(contextBackground(), w)
		return string(w.got), err
	}
	for step := 0; step < L; step++ {
		page := pages[zzChoice("page", len(pages))]
		v := zzChoice("data", 2)
		out, err := render(used, usedVue, page, v)
		fresh, ferr := render(NewFS(fsys), NewVue(fsys), page, v)
		zzNote("page", page)
		zzNote("used", out)
		zzNote("fresh", fresh)
		zzAssert((err == nil) == (ferr == nil), "C10.files.error-differs-from-fresh-engine")
		zzAssert(out == fresh, "C10.files.output-differs-from-fresh-engine")
	}
}
