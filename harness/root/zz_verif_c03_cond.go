package vuego

import (
	"strings"
)

// C03 — conditional chains and uniform truthiness.

//verif:harness VerifC03_Truthy quick.maxpaths=20000 thorough.maxpaths=100000 timeout=1200
//verif:harness VerifC03_Chain quick.maxpaths=60000 thorough.maxpaths=400000 timeout=2400
//verif:harness VerifC03_Assigned quick.maxpaths=20000 thorough.maxpaths=100000 timeout=1800
//verif:harness VerifC03_Reuse quick.maxpaths=40000 thorough.maxpaths=200000 timeout=2400
//verif:harness VerifC03_Paths quick.maxpaths=40000 thorough.maxpaths=200000 timeout=2400

type zzC03Struct struct{ A int }

// zzC03Value builds a condition value of the chosen kind with an arbitrary
// payload and says whether the documented rule calls it truthy.
func zzC03Value(kind int) (v any, present bool, truthy bool) {
	present = true
	switch kind {
	case 0:
		b := zzBool("b")
		return b, true, b
	case 1:
		s := zzStringIn("s", 2, "0af ")
		return s, true, s != ""
	case 2:
		n := zzInt("n", -2, 2)
		return n, true, n != 0
	case 3:
		n := int8(zzInt("n", -2, 2))
		return n, true, n != 0
	case 4:
		n := int16(zzInt("n", -2, 2))
		return n, true, n != 0
	case 5:
		n := int32(zzInt("n", -2, 2))
		return n, true, n != 0
	case 6:
		n := int64(zzInt("n", -2, 2))
		return n, true, n != 0
	case 7:
		n := uint(zzInt("n", 0, 2))
		return n, true, n != 0
	case 8:
		n := uint8(zzInt("n", 0, 2))
		return n, true, n != 0
	case 9:
		n := uint16(zzInt("n", 0, 2))
		return n, true, n != 0
	case 10:
		n := uint32(zzInt("n", 0, 2))
		return n, true, n != 0
	case 11:
		n := uint64(zzInt("n", 0, 2))
		return n, true, n != 0
	case 12:
		f := []float64{0, 1.5, -2}[zzChoice("f", 3)]
		return f, true, f != 0
	case 13:
		f := []float32{0, 1.5, -2}[zzChoice("f", 3)]
		return f, true, f != 0
	case 14:
		return nil, true, false
	case 15:
		return nil, false, false // missing
	case 16:
		x := 0
		return &x, true, true
	case 17:
		return []int{}, true, true
	case 18:
		return []string{"a"}, true, true
	case 19:
		return map[string]any{}, true, true
	case 20:
		return zzC03Struct{}, true, true
	// named types follow their underlying kind
	case 21:
		n := zzC03MyInt(zzInt("n", -1, 1))
		return n, true, n != 0
	case 22:
		b := zzC03MyBool(zzBool("b"))
		return b, true, bool(b)
	case 23:
		s := zzC03MyStr([]string{"", "x"}[zzChoice("s", 2)])
		return s, true, s != ""
	case 24:
		f := zzC03MyFloat([]float64{0, 2.5}[zzChoice("f", 2)])
		return f, true, f != 0
	}
	return nil, false, false
}

type zzC03MyInt int
type zzC03MyBool bool
type zzC03MyStr string
type zzC03MyFloat float64

const zzC03Kinds = 25

const zzC03TruthyTpl = `<p v-if="v">P-IF</p><p v-else>P-ELSE</p>` +
	`<q v-if="no">x</q><q v-else-if="v">Q-ELIF</q><q v-else>Q-ELSE</q>` +
	`<s v-show="v">S</s>` +
	`<a :data-x="v">A</a>` +
	`<b :class="{on: v}">B</b>` +
	// the toggled name is a substring of a static class name
	`<em class="icon-on wide" :class="{on: v, wid: v}">E</em>`

// VerifC03_Truthy: the same value has the documented truthiness in v-if,
// v-else-if, v-show, boolean attribute binding and :class objects.
func VerifC03_Truthy() {
	kind := zzChoice("kind", zzC03Kinds)
	v, present, truthy := zzC03Value(kind)
	if s, ok := v.(string); ok {
		zzAssume(s != "false") // documented special case, not part of the claim
	}
	data := map[string]any{"no": false}
	if present {
		data["v"] = v
	}
	out, err := zzRenderVia(zzEntry(), nil, nil, zzC03TruthyTpl, data)
	zzNote("out", out)
	zzNote("truthy", truthy)
	if err != nil {
		zzNote("err", err.Error())
	}
	zzAssert(err == nil, "C03.truthy.render-error")
	zzAssert(strings.Contains(out, "P-IF") == truthy, "C03.truthy.v-if")
	zzAssert(strings.Contains(out, "P-ELSE") == !truthy, "C03.truthy.v-else")
	zzAssert(strings.Contains(out, "Q-ELIF") == truthy, "C03.truthy.v-else-if")
	zzAssert(strings.Contains(out, "display:none") == !truthy, "C03.truthy.v-show")
	zzAssert(strings.Contains(out, "data-x=") == truthy, "C03.truthy.bound-attr")
	zzAssert(strings.Contains(out, `class="on"`) == truthy, "C03.truthy.class-object")
	// static names first, then the names whose values are truthy, in source order
	zzAssert(strings.Contains(out, `<em class="icon-on wide on wid">`) == truthy, "C03.truthy.class-object-next-to-static-class")
	zzAssert(strings.Contains(out, `<em class="icon-on wide">`) == !truthy, "C03.truthy.static-class-kept")
}

// ---- chains --------------------------------------------------------------------

const (
	zzKWs = iota
	zzKComment
	zzKPlain
	zzKIf
	zzKElseIf
	zzKElse
	zzKTplIf
	zzKTplElse
	zzKForEmpty // v-for over an empty list
	zzKForTwo   // v-for over two items
	zzKNumKinds
)

// VerifC03_Chain: for every sibling list over the node kinds and every truth
// assignment, exactly the first truthy branch of each chain is rendered and
// the other siblings come out unchanged and in order.
func VerifC03_Chain() {
	K := zzBound("K", 3, 4)
	kinds := make([]int, K)
	conds := make([]bool, K)
	var src strings.Builder
	data := map[string]any{"items": []int{1, 2}, "none": []int{}, "two": []int{1, 2}}
	for i := 0; i < K; i++ {
		kinds[i] = zzChoice("kind", zzKNumKinds)
		m := "M" + string(rune('0'+i))
		c := "c" + string(rune('0'+i))
		switch kinds[i] {
		case zzKWs:
			src.WriteString("\n  ")
		case zzKComment:
			src.WriteString("<!-- c -->")
		case zzKPlain:
			src.WriteString("<b>" + m + "</b>")
		case zzKIf:
			conds[i] = zzBool(c)
			data[c] = conds[i]
			src.WriteString(`<p v-if="` + c + `">` + m + `</p>`)
		case zzKElseIf:
			conds[i] = zzBool(c)
			data[c] = conds[i]
			src.WriteString(`<p v-else-if="` + c + `">` + m + `</p>`)
		case zzKElse:
			src.WriteString(`<p v-else>` + m + `</p>`)
		case zzKTplIf:
			conds[i] = zzBool(c)
			data[c] = conds[i]
			src.WriteString(`<template v-if="` + c + `"><i>` + m + `</i></template>`)
		case zzKTplElse:
			src.WriteString(`<template v-else><i>` + m + `</i></template>`)
		case zzKForEmpty:
			src.WriteString(`<s v-for="e in none">` + m + `</s>`)
		case zzKForTwo:
			src.WriteString(`<s v-for="e in two">` + m + `</s>`)
		}
	}
	placement := zzChoice("placement", 4)
	body := src.String()
	reps := 1
	var fsys *zzFS
	switch placement {
	case 3: // supplied to a component that uses its slot twice
		fsys = newZZFS(map[string]string{"twice.vuego": `<section><slot></slot><hr><slot></slot></section>`})
		body = `<template include="twice.vuego">` + body + `</template>`
		reps = 2
	case 1:
		body = "<div>" + body + "</div>"
	case 2:
		body = `<section v-for="it in items">` + body + `</section>`
		reps = 2
	}

	// reference walker, written from the statement
	var want []string
	for i := 0; i < K; {
		switch kinds[i] {
		case zzKPlain:
			want = append(want, "M"+string(rune('0'+i)))
			i++
		case zzKForTwo:
			want = append(want, "M"+string(rune('0'+i)), "M"+string(rune('0'+i)))
			i++
		case zzKForEmpty:
			// an empty loop renders an immediately following v-else element
			// (white space and comments may come between) and consumes it
			j := i + 1
			for j < K && (kinds[j] == zzKWs || kinds[j] == zzKComment) {
				j++
			}
			if j < K && (kinds[j] == zzKElse || kinds[j] == zzKTplElse) {
				want = append(want, "M"+string(rune('0'+j)))
				i = j + 1
			} else {
				i++
			}
		case zzKIf, zzKTplIf:
			chosen := -1
			if conds[i] {
				chosen = i
			}
			j := i + 1
			last := i
			elseSeen := false
			for j < K {
				k := kinds[j]
				if k == zzKWs || k == zzKComment {
					j++
					continue
				}
				if k != zzKElseIf && k != zzKElse && k != zzKTplElse {
					break
				}
				last = j
				if chosen < 0 && !elseSeen {
					if k == zzKElseIf {
						if conds[j] {
							chosen = j
						}
					} else {
						chosen = j
					}
				}
				if k != zzKElseIf {
					elseSeen = true
				}
				j++
			}
			if chosen >= 0 {
				want = append(want, "M"+string(rune('0'+chosen)))
			}
			i = last + 1
		default:
			i++ // whitespace, comments, orphan v-else-if / v-else
		}
	}

	out, err := zzRenderVia(zzEntry(), fsys, nil, body, data)
	zzNote("template", body)
	zzNote("out", out)
	zzAssert(err == nil, "C03.chain.render-error")
	// extract the markers in output order
	var got []string
	for p := 0; p+1 < len(out); p++ {
		if out[p] == 'M' && out[p+1] >= '0' && out[p+1] <= '9' {
			got = append(got, out[p:p+2])
		}
	}
	var wantAll []string
	for r := 0; r < reps; r++ {
		wantAll = append(wantAll, want...)
	}
	zzNote("want", strings.Join(wantAll, " "))
	zzNote("got", strings.Join(got, " "))
	zzAssert(strings.Join(got, " ") == strings.Join(wantAll, " "), "C03.chain.first-truthy-branch")
}

// ---- the same condition text over differently typed data ----------------------------

type zzC03ItemA struct {
	On   bool
	Name string
}

type zzC03ItemB struct {
	Name string
	On   bool
}

// zzC03Item builds an item whose field On has the given value, in one of
// several Go shapes.
func zzC03Item(shape int, on bool) any {
	switch shape {
	case 0:
		return zzC03ItemA{On: on, Name: "a"}
	case 1:
		return zzC03ItemB{Name: "b", On: on}
	case 2:
		return map[string]any{"On": on, "Name": "m"}
	}
	return &zzC03ItemA{On: on, Name: "p"}
}

// zzC03Num builds the number v in one of several Go types.
func zzC03Num(typ int, v int) any {
	switch typ {
	case 0:
		return v
	case 1:
		return float64(v)
	case 2:
		return int64(v)
	case 3:
		return uint8(v)
	}
	return float32(v)
}

// the exported field is reached by its json name although an unexported field is spelled like it
type zzC03Tagged struct {
	Done bool `json:"done"`
	done int
	Name string `json:"name"`
}

const zzC03ReuseTpl = `<em v-if="job.done">JD</em><em v-else-if="job.name">JN</em><em v-else>JX</em><u v-show="job.done" :class="{d: job.done}">u</u>` +
	`<p v-if="item.On">ON</p><p v-else>OFF</p>` +
	`<q v-if="n == 1">ONE</q><q v-else-if="n == 2">TWO</q><q v-else>OTHER</q>` +
	`<s v-show="!item.On">S</s>` +
	`<b :class="{neg: n < 1}">B</b>` +
	`<ul><li v-for="it in items"><i v-if="it.On">Y</i><i v-else>N</i></li></ul>`

// VerifC03_Reuse: one engine evaluates the same condition texts in two
// consecutive renders (and in one loop over mixed items) with data of
// different Go types; every evaluation follows the truthiness rule for the
// value it is given, whatever was evaluated before.
func VerifC03_Reuse() {
	// the values are concrete choices (not solver variables) so that the
	// real expression VM, with its type-specialised opcodes, evaluates them
	tpl := NewFS(nil)
	var shapes, typs, vs [2]int
	var ons [2]bool
	var mixed []any
	var wantLoop string
	for round := 0; round < 2; round++ {
		shapes[round] = zzChoice("shape", 4)
		ons[round] = zzChoice("on", 2) == 1
		typs[round] = zzChoice("typ", zzBound("numtypes", 3, 5))
		vs[round] = zzChoice("v", 3) // 0, 1, 2
		// the loop runs over the items of both rounds
		mixed = append(mixed, zzC03Item(shapes[round], ons[round]))
		if ons[round] {
			wantLoop += "<li><i>Y</i></li>"
		} else {
			wantLoop += "<li><i>N</i></li>"
		}
	}
	for round := 0; round < 2; round++ {
		shape, on, typ, v := shapes[round], ons[round], typs[round], vs[round]
		job := zzC03Tagged{Done: on, Name: "n"}
		data := map[string]any{"item": zzC03Item(shape, on), "n": zzC03Num(typ, v), "items": mixed, "job": job, "jobs": []zzC03Tagged{job}}
		w := &zzWriter{limit: 1 << 20}
		err := tpl.New().Fill(data).RenderString(contextBackground(), w, zzC03ReuseTpl)
		out := zzFlat(string(w.got))
		zzNote("out", out)
		if err != nil {
			zzNote("err", err.Error())
		}
		zzAssert(err == nil, "C03.reuse.render-error")
		zzAssert(strings.Contains(out, "<em>JD</em>") == on && strings.Contains(out, "<em>JN</em>") == !on, "C03.reuse.v-if-json-name")
		zzAssert(strings.Contains(out, `class="d"`) == on, "C03.reuse.class-json-name")
		zzAssert(strings.Contains(out, "<p>ON</p>") == on, "C03.reuse.v-if-field")
		zzAssert(strings.Contains(out, "<p>OFF</p>") == !on, "C03.reuse.v-else-field")
		zzAssert(strings.Contains(out, "ONE") == (v == 1), "C03.reuse.v-if-comparison")
		zzAssert(strings.Contains(out, "TWO") == (v == 2), "C03.reuse.v-else-if-comparison")
		zzAssert(strings.Contains(out, "OTHER") == (v == 0), "C03.reuse.v-else-comparison")
		zzAssert(strings.Contains(out, `<sstyle="display:none;">`) == on, "C03.reuse.v-show-negation")
		zzAssert(strings.Contains(out, `<ustyle="display:none;"`) == !on, "C03.reuse.v-show-json-name")
		zzAssert(strings.Contains(out, `class="neg"`) == (v < 1), "C03.reuse.class-object")
		zzAssert(strings.Contains(out, "<ul>"+wantLoop+"</ul>"), "C03.reuse.loop-over-mixed-items")
	}
}

// VerifC03_Assigned: a variable that is (re)assigned between two chains of
// the same sibling list - by <template :name="..."> or by the taken branch of
// a <template v-if ... :name="..."> - has its current value in every chain and
// in v-show, bound attributes and {{ }} alike.
func VerifC03_Assigned() {
	r0 := zzBool("r0")
	r1 := zzBool("r1")
	how := zzChoice("how", 3) // plain template assignment, assignment on a chain branch, none
	lit := func(b bool) string {
		if b {
			return "true"
		}
		return "false"
	}
	assign := ""
	cur := r0
	taken := false
	switch how {
	case 0:
		assign = `<template :ready="` + lit(r1) + `"></template>`
		cur = r1
	case 1:
		assign = `<template v-if="go" :ready="` + lit(r1) + `"><u>set</u></template><template v-else><u>kept</u></template>`
		taken = zzBool("go")
		if taken {
			cur = r1
		}
	}
	placement := zzChoice("placement", 2)
	body := `<p v-if="ready">early</p><p v-else>notyet</p>` + assign +
		`<q v-if="ready">READY</q><q v-else-if="!ready">WAITING</q><q v-else>NEVER</q>` +
		`<i v-show="ready">shown</i><b :data-r="ready">b</b><s>{{ ready }}</s>`
	if placement == 1 {
		body = `<div>` + body + `</div>`
	}
	data := map[string]any{"ready": r0, "go": taken}
	out, err := zzRenderVia(zzEntry(), nil, nil, body, data)
	zzNote("template", body)
	zzNote("out", out)
	zzAssert(err == nil, "C03.assigned.render-error")
	zzAssert(strings.Contains(out, "early") == r0, "C03.assigned.first-chain")
	zzAssert(strings.Contains(out, "READY") == cur, "C03.assigned.later-chain-sees-current-value")
	zzAssert(strings.Contains(out, "WAITING") == !cur, "C03.assigned.later-chain-else-if")
	zzAssert(!strings.Contains(out, "NEVER"), "C03.assigned.later-chain-else")
	zzAssert(strings.Contains(out, "display:none") == !cur, "C03.assigned.v-show")
	zzAssert(strings.Contains(out, "data-r=") == cur, "C03.assigned.bound-attribute")
}

// VerifC03_Paths: the value is reached through a path (a field, an index,
// two indexes in a row, bracketed keys) and the condition is the path or its
// negation: the truthiness rule applies to the value reached, the same in
// every position. Values are concrete choices so that the real expression VM
// runs where the condition goes through it.
func VerifC03_Paths() {
	var v any
	var truthy bool
	switch zzChoice("value", 14) {
	case 0:
		v, truthy = false, false
	case 1:
		v, truthy = true, true
	case 2:
		v, truthy = 0, false
	case 3:
		v, truthy = 3, true
	case 4:
		v, truthy = "", false
	case 5:
		v, truthy = "x", true
	case 6:
		v, truthy = uint8(0), false
	case 7:
		v, truthy = uint8(7), true
	case 8:
		v, truthy = 0.0, false
	case 9:
		v, truthy = 1.5, true
	case 10:
		v, truthy = nil, false
	case 11:
		v, truthy = []int{}, true
	case 12:
		v, truthy = zzC03MyInt(0), false
	case 13:
		v, truthy = int64(-1), true
	}
	paths := []string{"v", "o.v", "l[0]", "g[0][1]", "m['k']['v']", "o.l[1].v", "g[1][0]"}
	path := paths[zzChoice("path", len(paths))]
	neg := zzBool("negated")
	e := path
	if neg {
		e = "!" + path
		truthy = !truthy
	}
	tpl := `<p v-if="` + e + `">P-IF</p><p v-else>P-ELSE</p>` +
		`<q v-if="no">x</q><q v-else-if="` + e + `">Q-ELIF</q><q v-else>Q-ELSE</q>` +
		`<s v-show="` + e + `">S</s>` +
		`<a :data-x="` + e + `">A</a>` +
		`<b :class="{on: ` + e + `}">B</b>` +
		`<em class="icon-on wide" :class="{on: ` + e + `, wid: ` + e + `}">E</em>`
	data := map[string]any{
		"no": false,
		"v":  v,
		"o":  map[string]any{"v": v, "l": []any{1, map[string]any{"v": v}}},
		"l":  []any{v},
		"g":  []any{[]any{7, v}, []any{v, 0}},
		"m":  map[string]any{"k": map[string]any{"v": v}},
	}
	out, err := zzRenderVia(zzEntry(), nil, nil, tpl, data)
	zzNote("template", tpl)
	zzNote("out", out)
	if err != nil {
		zzNote("err", err.Error())
	}
	zzAssert(err == nil, "C03.paths.render-error")
	zzAssert(strings.Contains(out, "P-IF") == truthy, "C03.paths.v-if")
	zzAssert(strings.Contains(out, "P-ELSE") == !truthy, "C03.paths.v-else")
	zzAssert(strings.Contains(out, "Q-ELIF") == truthy, "C03.paths.v-else-if")
	zzAssert(strings.Contains(out, "display:none") == !truthy, "C03.paths.v-show")
	zzAssert(strings.Contains(out, "data-x=") == truthy, "C03.paths.bound-attr")
	zzAssert(strings.Contains(out, `class="on"`) == truthy, "C03.paths.class-object")
	zzAssert(strings.Contains(out, `<em class="icon-on wide on wid">`) == truthy && strings.Contains(out, `<em class="icon-on wide">`) == !truthy, "C03.paths.class-object-next-to-static-class")
}
