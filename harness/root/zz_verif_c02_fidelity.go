package vuego

import (
	"strings"

	"golang.org/x/net/html"
	"golang.org/x/net/html/atom"
)

// C02 — rendering is faithful: static content and values survive an HTML round trip.

//verif:harness VerifC02_Structure quick.maxpaths=20000 thorough.maxpaths=100000 timeout=1800 steps=30000000
//verif:harness VerifC02_AfterFailure poolreuse=lifo quick.maxpaths=20000 thorough.maxpaths=100000 timeout=1800
//verif:harness VerifC02_Text quick.maxpaths=60000 thorough.maxpaths=300000 timeout=2400
//verif:harness VerifC02_Interp quick.maxpaths=60000 thorough.maxpaths=300000 timeout=2400
//verif:harness VerifC02_FrontMatter quick.maxpaths=20000 thorough.maxpaths=100000 timeout=1800 steps=30000000

// directive-free, parser-stable templates over block, inline, void, table and raw-text elements
var zzC02Templates = []string{
	/* 0 */ `<div class="a b" id="x"><p>Hello <b>bold</b> and <i>it</i></p><span>tail</span></div>`,
	/* 1 */ `<p>a &lt; b &amp; c &gt; d &quot;q&quot; &#39;s&#39;</p>`,
	/* 2 */ `<a href="/x?a=1&amp;b=2" title="say &quot;hi&quot; &lt;now&gt;">link</a>`,
	/* 3 */ `<ul><li>one</li><li>two<ul><li>deep</li></ul></li></ul>`,
	/* 4 */ `<table><thead><tr><th>h</th></tr></thead><tbody><tr><td>c1</td><td>c2</td></tr></tbody></table>`,
	/* 5 */ `<p>line<br>break</p><hr><img src="i.png" alt="pic"><input type="text" value="v">`,
	/* 6 */ `<div><script>if (a < b && c > d) { x = "y"; }</script><style>p > a { color: red; }</style></div>`,
	/* 7 */ `<pre>  keep   this
  text</pre>`,
	/* 8 */ `<p>&amp;lt; stays an entity text; &lt;i&gt; is not a tag</p>`,
	/* 9 */ `<!DOCTYPE html><html><head><title>T</title></head><body><p>doc</p></body></html>`,
	/* 10 */ `<p title=" padded value ">x</p>`,
	/* 11 */ `<select><option value="1" selected>one</option><option>two</option></select>`,
	/* 12 */ `<p>text<!-- comment -->more</p>`,
	/* 13 */ `<h1>T</h1>
<p>para one</p>

<p>para two</p>`,
	// doctypes with public / system identifiers (the second one selects quirks mode, which changes how <p><table> nests)
	/* 14 */ `<!DOCTYPE html PUBLIC "-//W3C//DTD XHTML 1.0 Strict//EN" "http://www.w3.org/TR/xhtml1/DTD/xhtml1-strict.dtd"><html><head><title>T</title></head><body><p>doc</p></body></html>`,
	/* 15 */ `<!DOCTYPE HTML PUBLIC "-//W3C//DTD HTML 4.01 Transitional//EN"><html><head><title>T</title></head><body><p>para<table><tr><td>cell</td></tr></table></body></html>`,
	/* 16 */ `<!DOCTYPE html SYSTEM "about:legacy-compat"><html><head></head><body><p>doc</p></body></html>`,
	// text that consists of non-ASCII space characters only is text
	/* 19 */ "<!DOCTYPE html>\n<html lang=\"en\"><head><title>T</title></head><body class=\"home\"><p>a &amp; b</p></body></html>\n<!-- generated -->\n",
	/* 20 */ "<html><body id=\"b\"><p>x</p></body></html>\n\n   \n",
	/* 18 */ `<p title="naïve — “quoted” 日本語">Füße &amp; Ærøskøbing – 東京 🙂 &eacute;&#x1F600;</p><a href="/søk?q=blåbær&amp;x=ü">lënk</a>`,
	/* 17 */ `<table><tr><td>&nbsp;</td><td>a&nbsp;b</td></tr></table><p>&nbsp;</p><span>&emsp;</span><ul><li>&#160;&#xA0;</li></ul>`,
}

// zzTreeSig flattens a parsed tree into a signature: elements, attributes
// (sorted by the parser's order), text (whitespace-collapsed), doctype.
func zzTreeSig(nodes []*html.Node) string {
	var sb strings.Builder
	text := ""
	flush := func() {
		if text != "" {
			sb.WriteString("[" + text + "]")
			text = ""
		}
	}
	var walk func(n *html.Node)
	walk = func(n *html.Node) {
		switch n.Type {
		case html.ElementNode:
			flush()
			sb.WriteString("<" + n.Data)
			for _, a := range n.Attr {
				sb.WriteString(" " + a.Key + "=" + a.Val)
			}
			sb.WriteString(">")
			for c := n.FirstChild; c != nil; c = c.NextSibling {
				walk(c)
			}
			flush()
			sb.WriteString("</" + n.Data + ">")
		case html.TextNode:
			// adjacent text runs (separated by comments only) are one run;
			// white space is insignificant
			text += zzStripASCIISpace(n.Data)
		case html.DoctypeNode:
			flush()
			sb.WriteString("<!doctype " + n.Data)
			for _, a := range n.Attr { // public and system identifiers
				sb.WriteString(" " + a.Key + "=" + a.Val)
			}
			sb.WriteString(">")
		case html.DocumentNode:
			for c := n.FirstChild; c != nil; c = c.NextSibling {
				walk(c)
			}
		}
	}
	for _, n := range nodes {
		walk(n)
	}
	flush()
	return sb.String()
}

// zzStripASCIISpace removes the characters HTML treats as white space (and
// only those: a no-break space is text).
func zzStripASCIISpace(s string) string {
	var b strings.Builder
	for i := 0; i < len(s); i++ {
		switch s[i] {
		case ' ', '\t', '\n', '\r', '\f':
		default:
			b.WriteByte(s[i])
		}
	}
	return b.String()
}

func zzParse(src string) []*html.Node {
	if strings.Contains(src, "</html>") {
		doc, err := html.Parse(strings.NewReader(src))
		if err != nil {
			return nil
		}
		return []*html.Node{doc}
	}
	nodes, err := html.ParseFragment(strings.NewReader(src), &html.Node{Type: html.ElementNode, DataAtom: atom.Body, Data: "body"})
	if err != nil {
		return nil
	}
	return nodes
}

// VerifC02_Structure: parsing the output of a directive-free template yields
// the same document as parsing the template itself.
func VerifC02_Structure() {
	k := zzChoice("template", len(zzC02Templates))
	entry := zzChoice("entry", 2)
	src := zzC02Templates[k]
	var out string
	var err error
	if entry == 0 {
		out, err = zzRender(NewFS(nil), src, map[string]any{})
	} else {
		out, err = zzRenderFile(newZZFS(map[string]string{"t.vuego": src}), "t.vuego", map[string]any{})
	}
	zzNote("template", src)
	zzNote("out", out)
	zzAssert(err == nil, "C02.structure.render-error")
	want := zzTreeSig(zzParse(src))
	got := zzTreeSig(zzParse(out))
	zzNote("want", want)
	zzNote("got", got)
	zzAssert(got == want, "C02.structure.round-trip")
}

// VerifC02_Text: an arbitrary decoded static text / attribute value is
// emitted as exactly one escaped text run / attribute value.
func VerifC02_Text() {
	n := zzBound("N", 4, 6)
	d := zzStringIn("d", n, "<>&\"';#a t")
	kind := zzChoice("kind", 3)
	p := &html.Node{Type: html.ElementNode, Data: "p"}
	switch kind {
	case 0: // only child
		p.AppendChild(&html.Node{Type: html.TextNode, Data: d})
	case 1: // text between element siblings
		p.AppendChild(&html.Node{Type: html.ElementNode, Data: "b"})
		p.AppendChild(&html.Node{Type: html.TextNode, Data: d})
		p.AppendChild(&html.Node{Type: html.ElementNode, Data: "i"})
	case 2: // attribute value
		p.Attr = []html.Attribute{{Key: "title", Val: d}}
	}
	var sb stringsBuilder
	err := NewVue(nil).RenderNodes(&sb, []*html.Node{p}, map[string]any{})
	out := sb.String()
	zzNote("out", out)
	zzAssert(err == nil, "C02.text.render-error")
	zzCover(len(d) == n, "full-length text reaches the serialiser")
	switch kind {
	case 0:
		if strings.TrimSpace(d) == "" {
			return // insignificant whitespace
		}
		zzAssert(zzTagOpens(out) == 2, "C02.text.extra-markup")
		zzAssert(zzSquash(zzUnescape(out)) == zzSquash("<p>"+d+"</p>"), "C02.text.single-child")
	case 1:
		if strings.TrimSpace(d) == "" {
			return
		}
		zzAssert(zzTagOpens(out) == 6, "C02.text.extra-markup")
		zzAssert(zzSquash(zzUnescape(out)) == zzSquash("<p><b></b>"+d+"<i></i></p>"), "C02.text.between-siblings")
	case 2:
		zzAssert(zzTagOpens(out) == 2 && zzTagQuotes(out) == 2, "C02.text.attribute-breakout")
		zzAssert(zzUnescape(strings.TrimSpace(out)) == `<p title="`+d+`"></p>`, "C02.text.attribute-value")
	}
}

// VerifC02_Interp: where a value is interpolated, the text / attribute value
// is the static neighbours concatenated with the value's string form, and
// v-html output contains its value verbatim.
func VerifC02_Interp() {
	n := zzBound("N", 2, 3)
	pre := zzStringIn("pre", n, "<&;a ")
	post := zzStringIn("post", n, ">&;a ")
	val := zzStringIn("val", zzBound("NV", 3, 4), "<>&\"';{a")
	zzAssume(!zzContains(pre, "{") && !zzContains(post, "}"))
	kind := zzChoice("kind", 3)
	// the element may carry another directive next to the interpolated attribute
	other := zzChoice("other", 5) // none, v-html, v-text, v-show (truthy), v-if
	p := &html.Node{Type: html.ElementNode, Data: "p"}
	switch kind {
	case 0:
		p.AppendChild(&html.Node{Type: html.TextNode, Data: pre + "{{ v }}" + post})
	case 1:
		p.Attr = []html.Attribute{{Key: "title", Val: pre + "{{ v }}" + post}}
		switch other {
		case 1:
			p.Attr = append(p.Attr, html.Attribute{Key: "v-html", Val: "w"})
		case 2:
			p.Attr = append([]html.Attribute{{Key: "v-text", Val: "w"}}, p.Attr...)
		case 3:
			p.Attr = append(p.Attr, html.Attribute{Key: "v-show", Val: "yes"})
		case 4:
			p.Attr = append([]html.Attribute{{Key: "v-if", Val: "yes"}}, p.Attr...)
		}
	case 2:
		p.Attr = []html.Attribute{{Key: "v-html", Val: "v"}}
	}
	if kind != 1 && other != 0 {
		return
	}
	var sb stringsBuilder
	err := NewVue(nil).RenderNodes(&sb, []*html.Node{p}, map[string]any{"v": val, "w": "W", "yes": true})
	out := sb.String()
	zzNote("out", out)
	zzAssert(err == nil, "C02.interp.render-error")
	switch kind {
	case 0:
		whole := pre + val + post
		if strings.TrimSpace(whole) == "" {
			return
		}
		zzAssert(zzTagOpens(out) == 2, "C02.interp.extra-markup")
		zzAssert(zzSquash(zzUnescape(out)) == zzSquash("<p>"+whole+"</p>"), "C02.interp.text-is-neighbours-plus-value")
	case 1:
		zzAssert(zzTagOpens(out) == 2 && zzTagQuotes(out) == 2, "C02.interp.attr-one-value")
		inner := ""
		if other == 1 || other == 2 {
			inner = "W"
		}
		zzAssert(zzSquash(zzUnescape(strings.TrimSpace(out))) == zzSquash(`<p title="`+pre+val+post+`">`+inner+`</p>`), "C02.interp.attr-is-neighbours-plus-value")
	case 2:
		if val == "" {
			return
		}
		zzAssert(zzSquash(out) == zzSquash("<p>"+val+"</p>"), "C02.interp.v-html-verbatim")
	}
}

// VerifC02_AfterFailure: a render that failed part-way (inside text, an
// attribute, a loop or an include) leaves nothing behind that shows up in
// the next, faithful render on the same process.
func VerifC02_AfterFailure() {
	failing := []string{
		`<p>Dear {{ name | nosuchfilter }} tail</p>`,
		`<p title="pre {{ name | nosuchfilter }}">x</p>`,
		`<ul><li v-for="i in items">item {{ i }} {{ name | nosuchfilter }}</li></ul>`,
		`<div>before<template include="missing.vuego"></template></div>`,
		`<p :title="name | nosuchfilter">x</p>`,
	}
	k := zzChoice("failing", len(failing))
	val := zzStringIn("val", 2, "<&a")
	tpl := NewFS(newZZFS(map[string]string{"c.vuego": `<span>{{ p }}</span>`}))
	data := map[string]any{"name": "N", "items": []int{1, 2}, "v": val}
	_, err := zzRender(tpl, failing[k], data)
	zzAssert(err != nil, "C02.afterfailure.program-fails")
	good := `<p title="t-{{ v }}">Hello {{ v }}!</p>`
	out, err2 := zzRender(tpl, good, data)
	zzNote("out", out)
	zzAssert(err2 == nil, "C02.afterfailure.render-error")
	zzAssert(zzTagOpens(out) == 2 && zzTagQuotes(out) == 2, "C02.afterfailure.extra-markup")
	zzAssert(zzSquash(zzUnescape(out)) == zzSquash(`<p title="t-`+val+`">Hello `+val+`!</p>`), "C02.afterfailure.text-is-neighbours-plus-value")
	// and on a fresh engine as well (the pools are process-wide)
	out2, err3 := zzRender(NewFS(newZZFS(map[string]string{"c.vuego": `<span>{{ p }}</span>`})), good, data)
	zzAssert(err3 == nil && out2 == out, "C02.afterfailure.fresh-engine-differs")
}

// front-matter values as written in YAML, and the string each one denotes
var zzC02FMValues = [][2]string{
	{`word`, `word`},
	{`Guide --- Part 1`, `Guide --- Part 1`},
	{`"a --- b"`, `a --- b`},
	{`'---'`, `---`},
	{`x # --- not a delimiter ---`, `x`},
	{"|\n  first\n  --- second", "first\n--- second\n"},
	{`a---`, `a---`},
}

// VerifC02_FrontMatter: a template file below a front-matter block renders
// its body and nothing else, and the block's values reach the body as YAML
// reads them — whatever the block's line endings, the blanks after its
// closing line, and whether a value happens to contain three dashes.
func VerifC02_FrontMatter() {
	k := zzChoice("value", len(zzC02FMValues))
	eol := []string{"\n", "\r\n"}[zzChoice("eol", 2)]
	closing := []string{"---", "--- ", "---\t"}[zzChoice("closing", 3)]
	second := zzBool("secondKey")
	entry := zzChoice("entry", zzBound("fmEntries", 3, 4))
	body := `<h1 title="t {{ title }}">{{ title }}</h1><p>static &amp; text</p>`
	var fm strings.Builder
	fm.WriteString("---" + eol)
	if second {
		fm.WriteString("before: b" + eol)
	}
	fm.WriteString("title: " + strings.ReplaceAll(zzC02FMValues[k][0], "\n", eol) + eol)
	if second {
		fm.WriteString("after: a" + eol)
	}
	fm.WriteString(closing + eol)
	file := fm.String() + body
	if zzBool("bodyOnNextLineOnly") {
		file += eol
	}
	fsys := newZZFS(map[string]string{"page.vuego": file, "host.vuego": `<template include="page.vuego"></template>`})
	var sb strings.Builder
	var err error
	switch entry {
	case 0:
		err = NewFS(fsys).New().RenderFile(contextBackground(), &sb, "page.vuego")
	case 1:
		err = NewFS(fsys).Load("page.vuego").Render(contextBackground(), &sb)
	case 2: // as a component: its front-matter is visible to its own body
		err = NewFS(fsys).New().RenderFile(contextBackground(), &sb, "host.vuego")
	case 3:
		err = NewVue(fsys).RenderFragment(&sb, "page.vuego", map[string]any{})
	}
	out := sb.String()
	zzNote("file", file)
	zzNote("out", out)
	zzAssert(err == nil, "C02.frontmatter.render-error")
	want := zzC02FMValues[k][1]
	zzAssert(zzTagOpens(out) == 4 && zzTagQuotes(out) == 2, "C02.frontmatter.extra-markup")
	zzAssert(zzSquash(zzUnescape(out)) == zzSquash(`<h1 title="t `+want+`">`+want+`</h1><p>static & text</p>`), "C02.frontmatter.body-and-values")
}
