package vuego

import (
	"strings"
)

// C06 — slots receive the matching content, fall back otherwise, and stay per-instance.

//verif:harness VerifC06_Slots quick.maxpaths=60000 thorough.maxpaths=300000 timeout=2400 steps=20000000
//verif:harness VerifC06_Loop quick.maxpaths=20000 thorough.maxpaths=100000 timeout=1800 steps=20000000

func zzC06FS() *zzFS {
	return newZZFS(map[string]string{
		"card.vuego":    `<div class="card"><header><slot name="h">FB-H</slot></header><main><slot>FB-D</slot></main><footer><slot name="f" :x="n" :y="m">FB-F</slot></footer></div>`,
		"list.vuego":    `<ul><li v-for="it in items"><slot :item="it" :pos="it">FB-{{ it }}</slot></li></ul>`,
		"panel.vuego":   `<div class="panel"><header><slot name="h" :outer="heading" :k="heading">FB-H-{{ outer }}</slot></header><main><slot>FB-D-{{ outer }}</slot></main><footer>{{ outer }}|<slot name="f">FB-F-{{ outer }}</slot></footer></div>`,
		"rows.vuego":    `<ul><li v-for="it in rows"><slot :id="it.id" :label="it.label">fb</slot></li></ul>`,
		"flags.vuego":   `<ul><li v-for="row in rows"><slot :row="row">fb</slot></li></ul>`,
		"twice.vuego":   `<section><slot></slot><i>+</i><slot></slot></section>`,
		"leaf.vuego":    `<em>{{ p + 1 }}</em>`,
		"rowslot.vuego": `<ul><slot v-for="(i, it) in items" name="row" :item="it" :index="i"><li>FB-{{ i }}-{{ it }}</li></slot></ul>`,
		"wrap.vuego":    `<section class="wrap"><template include="card.vuego"><template v-slot:h>INNER-H</template></template><slot>FB-WRAP</slot></section>`,
	})
}

// how the includer supplies content for a slot
//
//	default slot: 0 nothing, 1 plain children, 2 <template v-slot>, 3 <template v-slot:default>, 4 <template #default>
//	header slot : 0 nothing, 1 <template v-slot:h>, 2 <template #h>
//	footer slot : 0 nothing, 1 scoped by name (#f="p"), 2 scoped v-slot:f="p"
func zzC06Include(dflt, hdr, ftr int, tag string) (src string, wantD, wantH, wantF string) {
	wantD, wantH, wantF = "FB-D", "FB-H", "FB-F"
	src = `<template include="card.vuego" :n="nv" m="` + tag + `">`
	switch dflt {
	case 1:
		src += `<b>PLAIN-` + tag + `-{{ outer }}</b>`
		wantD = "<b>PLAIN-" + tag + "-OUT</b>"
	case 2:
		src += `<template v-slot><b>VS-` + tag + `-{{ outer }}</b></template>`
		wantD = "<b>VS-" + tag + "-OUT</b>"
	case 3:
		src += `<template v-slot:default><b>VSD-` + tag + `-{{ outer }}</b></template>`
		wantD = "<b>VSD-" + tag + "-OUT</b>"
	case 4:
		src += `<template #default><b>HD-` + tag + `-{{ outer }}</b></template>`
		wantD = "<b>HD-" + tag + "-OUT</b>"
	}
	switch hdr {
	case 1:
		src += `<template v-slot:h><i>H-` + tag + `-{{ outer }}</i></template>`
		wantH = "<i>H-" + tag + "-OUT</i>"
	case 2:
		src += `<template #h><i>HH-` + tag + `-{{ outer }}</i></template>`
		wantH = "<i>HH-" + tag + "-OUT</i>"
	}
	switch ftr {
	case 1:
		src += `<template #f="p"><u>F-{{ p.x }}-{{ p.y }}-{{ outer }}</u></template>`
		wantF = "<u>F-9-" + tag + "-OUT</u>"
	case 2:
		src += `<template v-slot:f="p"><u>G-{{ p.x }}-{{ p.y }}-{{ outer }}</u></template>`
		wantF = "<u>G-9-" + tag + "-OUT</u>"
	case 3: // destructured
		src += `<template #f="{ x, y }"><u>D-{{ x }}-{{ y }}-{{ outer }}</u></template>`
		wantF = "<u>D-9-" + tag + "-OUT</u>"
	}
	src += `</template>`
	return
}

// VerifC06_Slots: every subset of supplied slots in every form, dynamic
// content evaluated with the includer's variables plus the slot's props, and
// two instances side by side that must not see each other's content.
func VerifC06_Slots() {
	d1, h1, f1 := zzChoice("d1", 5), zzChoice("h1", 3), zzChoice("f1", 4)
	two := zzBool("two")
	src1, wantD1, wantH1, wantF1 := zzC06Include(d1, h1, f1, "A")
	body := `<div>` + src1
	var wantD2, wantH2, wantF2 string
	if two {
		d2, h2, f2 := zzChoice("d2", 5), zzChoice("h2", 3), zzChoice("f2", 4)
		var src2 string
		src2, wantD2, wantH2, wantF2 = zzC06Include(d2, h2, f2, "B")
		body += src2
	}
	body += `</div>`
	out, err := zzRenderVia(zzEntry(), zzC06FS(), nil, body, map[string]any{"outer": "OUT", "nv": 9})
	flat := zzFlat(out)
	zzNote("template", body)
	zzNote("out", flat)
	if err != nil {
		zzNote("err", err.Error())
	}
	zzAssert(err == nil, "C06.slots.render-error")
	card := func(h, d, f string) string {
		return `<div class="card"><header>` + h + `</header><main>` + d + `</main><footer>` + f + `</footer></div>`
	}
	want := `<div>` + card(wantH1, wantD1, wantF1)
	if two {
		want += card(wantH2, wantD2, wantF2)
	}
	want += `</div>`
	zzNote("want", want)
	zzAssert(flat == zzFlat(want), "C06.slots.content-per-slot-and-instance")
}

// VerifC06_Loop: a slot inside a loop is filled once per iteration with that
// iteration's props; a component nested in a component keeps its own slots.
func VerifC06_Loop() {
	mode := zzChoice("mode", 12)
	var body, want string
	var opts []LoadOption
	fsys := zzC06FS()
	data := map[string]any{"outer": "OUT", "items": []string{"a", "b"}, "nv": 9}
	switch mode {
	case 0: // scoped by name
		body = `<template include="list.vuego"><template v-slot="s"><!-- note --><b>{{ s.item }}-{{ outer }}</b><!-- end --></template></template>`
		want = `<ul><li><b>a-OUT</b></li><li><b>b-OUT</b></li></ul>`
	case 1: // nothing supplied: fallback per iteration
		body = `<template include="list.vuego"></template>`
		want = `<ul><li>FB-a</li><li>FB-b</li></ul>`
	case 2: // nested component: the inner card gets INNER-H, the wrapper's default slot gets the includer's content
		body = `<template include="wrap.vuego"><em>W-{{ outer }}</em></template>`
		want = `<section class="wrap"><div class="card"><header>INNER-H</header><main>FB-D</main><footer>FB-F</footer></div><em>W-OUT</em></section>`
	case 5: // a slot prop named like an includer variable is visible in that slot's content only
		hForm := zzChoice("hform", 3)
		dForm := zzChoice("dform", 3)
		fForm := zzChoice("fform", 2)
		body = `<template include="panel.vuego" heading="IN">`
		wantH, wantD, wantF := "FB-H-OUT", "FB-D-OUT", "FB-F-OUT"
		switch hForm {
		case 1:
			body += `<template #h>[{{ outer }}]</template>`
			wantH = "[IN]" // props spread into the content of this slot
		case 2:
			body += `<template #h="p">[{{ p.outer }}/{{ outer }}]</template>`
			wantH = "[IN/OUT]"
		}
		switch dForm {
		case 1:
			body += `<p>{{ outer }}</p>`
			wantD = "<p>OUT</p>"
		case 2:
			body += `<template v-slot><p>{{ outer }}</p></template>`
			wantD = "<p>OUT</p>"
		}
		if fForm == 1 {
			body += `<template #f><u>{{ outer }}{{ k }}</u></template>`
			wantF = "<u>OUT</u>"
		}
		body += `</template>`
		want = `<div class="panel"><header>` + wantH + `</header><main>` + wantD + `</main><footer>OUT|` + wantF + `</footer></div>`
	case 4: // scoped props that are present for some iterations and absent for others
		var rows []any
		want = `<ul>`
		for r := 1; r <= 3; r++ {
			row := map[string]any{"id": r}
			label := ""
			if zzBool("haslabel") {
				label = "L" + string(rune('0'+r))
				row["label"] = label
			}
			rows = append(rows, row)
			want += `<li>[` + string(rune('0'+r)) + `:` + label + `]</li>`
		}
		want += `</ul>`
		data["rows"] = rows
		spread := zzBool("spread")
		if spread {
			body = `<template include="rows.vuego"><template v-slot>[{{ id }}:{{ label }}]</template></template>`
		} else {
			body = `<template include="rows.vuego"><template v-slot="s">[{{ s.id }}:{{ s.label }}]</template></template>`
		}
	case 6: // supplied content with directives that depend on the iteration's props
		var rows []any
		want = `<ul>`
		for r := 1; r <= 3; r++ {
			on := zzBool("on")
			rows = append(rows, map[string]any{"id": r, "on": on})
			hidden := ""
			if !on {
				hidden = "H"
			}
			want += `<li>` + string(rune('0'+r)) + hidden + `</li>`
		}
		want += `</ul>`
		data["rows"] = rows
		body = `<template include="flags.vuego"><template #default="p"><!-- per row --><b style="color:red" v-show="p.row.on" :title="p.row.id">{{ p.row.id }}</b></template></template>`
		out, err := zzRenderVia(zzEntry(), zzC06FS(), nil, body, data)
		zzNote("template", body)
		zzNote("out", out)
		zzAssert(err == nil, "C06.loop.render-error")
		// reduce every iteration to its id and whether it is hidden
		got := `<ul>`
		rest := out
		for {
			p := strings.Index(rest, "<li>")
			if p < 0 {
				break
			}
			q := strings.Index(rest[p:], "</li>")
			seg := rest[p : p+q]
			rest = rest[p+q:]
			id := ""
			if t := strings.Index(seg, `title="`); t >= 0 {
				id = seg[t+7 : t+8]
			}
			hidden := ""
			if strings.Contains(seg, "display:none") {
				hidden = "H"
			}
			zzAssert(strings.Contains(seg, "color:red"), "C06.loop.static-style-kept")
			got += `<li>` + id + hidden + `</li>`
		}
		got += `</ul>`
		zzNote("want", want)
		zzNote("got", got)
		zzAssert(got == want, "C06.loop.per-iteration-and-nesting")
		return
	case 7: // a slot used twice gets the same content twice (bound props keep their bindings and types)
		body = `<template include="twice.vuego"><template include="leaf.vuego" :p="nv"></template><b :title="outer">{{ nv + 1 }}</b></template>`
		want = `<section><em>10</em><b title="OUT">10</b><i>+</i><em>10</em><b title="OUT">10</b></section>`
	case 10: // the loop is written on the <slot> element itself
		body = `<template include="rowslot.vuego"><template #row="p"><li>{{ p.index }}={{ p.item }}-{{ outer }}</li></template></template>`
		want = `<ul><li>0=a-OUT</li><li>1=b-OUT</li></ul>`
	case 11:
		body = `<template include="rowslot.vuego"></template>`
		want = `<ul><li>FB-0-a</li><li>FB-1-b</li></ul>`
	case 8, 9: // supplied content that itself uses a registered shorthand component tag
		fsys.files["components/my-badge.vuego"] = `<span class="badge"><slot>new</slot></span>`
		opts = []LoadOption{WithComponents()}
		if mode == 8 {
			body = `<template include="card.vuego"><template #h><my-badge>Hot</my-badge></template><my-badge></my-badge></template>`
		} else {
			body = `<template include="card.vuego"><template v-slot:h><my-badge>Hot</my-badge></template><template v-slot><my-badge></my-badge></template></template>`
		}
		want = `<div class="card"><header><span class="badge">Hot</span></header><main><span class="badge">new</span></main><footer>FB-F</footer></div>`
	case 3: // nested component, nothing supplied to the wrapper
		body = `<template include="wrap.vuego"></template>`
		want = `<section class="wrap"><div class="card"><header>INNER-H</header><main>FB-D</main><footer>FB-F</footer></div>FB-WRAP</section>`
	}
	out, err := zzRenderVia(zzEntry(), fsys, opts, body, data)
	flat := zzFlat(out)
	zzNote("template", body)
	zzNote("out", flat)
	zzNote("want", want)
	zzAssert(err == nil, "C06.loop.render-error")
	zzAssert(flat == zzFlat(want), "C06.loop.per-iteration-and-nesting")
}
