package vuego

import (
	"sort"
	"strings"
)

// C14 — attribute binding: falsy omits, class and style merge, directives never leak.

//verif:harness VerifC14_Attrs quick.maxpaths=100000 thorough.maxpaths=600000 timeout=3000

type zzAttrSpec struct {
	src  string // attribute as written in the template
	name string // source attribute name (to avoid writing one name twice)
}

var zzC14Catalogue = []zzAttrSpec{
	/* 0 */ {`id="s1"`, "id"},
	/* 1 */ {`data-i="x-{{ sv }}-y"`, "data-i"},
	/* 2 */ {`:href="sv"`, ":href"},
	/* 3 */ {`v-bind:alt="iv"`, "v-bind:alt"},
	/* 4 */ {`:hidden="fv"`, ":hidden"},
	/* 5 */ {`:data-z="zv"`, ":data-z"},
	/* 6 */ {`:data-n="nv"`, ":data-n"},
	/* 7 */ {`class="base"`, "class"},
	/* 8 */ {`:class="cv"`, ":class"},
	/* 9 */ {`:class="{on: tv, off: fv}"`, ":class"},
	/* 10 */ {`style="color:red;margin:0"`, "style"},
	/* 11 */ {`:style="{color: 'blue', fontSize: '12px'}"`, ":style"},
	/* 12 */ {`v-show="tv"`, "v-show"},
	/* 13 */ {`[data-lit]="a b"`, "[data-lit]"},
	/* 14 */ {`v-once`, "v-once"},
	/* 15 */ {`:title="bv"`, ":title"},
	/* 16 */ {`title="static-t"`, "title"},
	/* 17 */ {`:style="{margin: zv, zIndex: iv, color: bv}"`, ":style"},
}

// VerifC14_Attrs: differential against a reference attribute evaluator
// written from the statement, for elements reached through four different
// evaluation paths (plain, v-if branch, v-else branch, v-for root).
func VerifC14_Attrs() {
	nAttrs := zzBound("attrs", 2, 3)
	construct := zzChoice("construct", 4)
	sv := []string{"", "ab"}[zzChoice("sv", 2)]
	tv := zzBool("tv")
	bkind := zzChoice("bkind", 4)
	var bv any
	bvStr, bvTruthy := "", false
	switch bkind {
	case 0:
		bv, bvStr, bvTruthy = 3, "3", true
	case 1:
		bv, bvStr, bvTruthy = 0, "0", false
	case 2:
		bv, bvStr, bvTruthy = true, "true", true
	case 3:
		bv, bvStr, bvTruthy = "word", "word", true
	}
	data := map[string]any{"sv": sv, "iv": 7, "fv": false, "zv": 0, "tv": tv, "cv": "dyn", "bv": bv, "ok": true, "no": false, "items": []int{1}}

	var picked []int
	seen := map[string]bool{}
	var src strings.Builder
	// optionally start from a static attribute and a binding of the same name
	pre := [][]int{nil, {7, 8}, {7, 9}, {10, 11}, {16, 15}, {8, 7}, {10, 17}}[zzChoice("collision", 7)]
	for _, k := range pre {
		spec := zzC14Catalogue[k]
		seen[spec.name] = true
		picked = append(picked, k)
		src.WriteString(" " + spec.src)
	}
	for a := 0; a < nAttrs; a++ {
		k := zzChoice("attr", len(zzC14Catalogue)+1)
		if k == len(zzC14Catalogue) {
			continue // empty slot
		}
		spec := zzC14Catalogue[k]
		if seen[spec.name] {
			return // the same attribute written twice is not valid HTML
		}
		seen[spec.name] = true
		picked = append(picked, k)
		src.WriteString(" " + spec.src)
	}
	var body string
	switch construct {
	case 0:
		body = `<p` + src.String() + `>T</p>`
	case 1:
		body = `<p v-if="ok"` + src.String() + `>T</p><p v-else>E</p>`
	case 2:
		body = `<b v-if="no">N</b><p v-else` + src.String() + `>T</p>`
	case 3:
		body = `<p v-for="it in items"` + src.String() + `>T</p>`
	}

	// ---- reference -------------------------------------------------------------
	want := map[string]string{}
	styleDecl := map[string]string{}
	hasStyle := false
	classParts := []string{}
	hasClass := false
	has := func(k int) bool {
		for _, p := range picked {
			if p == k {
				return true
			}
		}
		return false
	}
	for _, k := range picked {
		switch k {
		case 0:
			want["id"] = "s1"
		case 1:
			want["data-i"] = "x-" + sv + "-y"
		case 2:
			if sv != "" {
				want["href"] = sv
			}
		case 3:
			want["alt"] = "7"
		case 7:
			hasClass = true
			classParts = append([]string{"base"}, classParts...)
		case 8:
			hasClass = true
			classParts = append(classParts, "dyn")
		case 9:
			if tv {
				hasClass = true
				classParts = append(classParts, "on")
			}
		case 10:
			hasStyle = true
			styleDecl["color"] = "red"
			styleDecl["margin"] = "0"
		case 13:
			want["data-lit"] = "a b"
		case 15:
			if bvTruthy {
				want["title"] = bvStr
			}
		case 16:
			want["title"] = "static-t"
		}
	}
	if has(15) && has(16) && bvTruthy {
		want["title"] = bvStr // a truthy bound value replaces the static one
	}
	if has(12) && !tv {
		hasStyle = true
		styleDecl["display"] = "none"
	}
	if has(11) {
		hasStyle = true
		styleDecl["color"] = "blue"
		styleDecl["font-size"] = "12px"
	}
	if has(17) {
		// every property of the object contributes its value's string form,
		// zero and false included
		hasStyle = true
		styleDecl["margin"] = "0"
		styleDecl["z-index"] = "7"
		styleDecl["color"] = bvStr
	}
	if hasClass {
		want["class"] = strings.Join(classParts, " ")
	}

	out, err := zzRender(NewFS(nil), body, data)
	zzNote("template", body)
	zzNote("out", out)
	if err != nil {
		zzNote("err", err.Error())
	}
	zzAssert(err == nil, "C14.attrs.render-error")

	// ---- parse the open tag of the <p> that carries the attributes -----------------
	start := strings.Index(out, "<p")
	zzAssert(start >= 0, "C14.attrs.element-rendered")
	end := strings.Index(out[start:], ">")
	tag := out[start+2 : start+end]
	got := map[string]string{}
	order := []string{}
	rest := tag
	for {
		rest = strings.TrimLeft(rest, " ")
		if rest == "" {
			break
		}
		eq := strings.Index(rest, `="`)
		if eq < 0 {
			got[rest] = ""
			order = append(order, rest)
			break
		}
		name := rest[:eq]
		q := strings.Index(rest[eq+2:], `"`)
		got[name] = rest[eq+2 : eq+2+q]
		order = append(order, name)
		rest = rest[eq+2+q+1:]
	}
	zzNote("got", strings.Join(order, ","))

	var wantNames []string
	for n := range want {
		wantNames = append(wantNames, n)
	}
	if hasStyle {
		wantNames = append(wantNames, "style")
	}
	sort.Strings(wantNames)
	gotNames := append([]string{}, order...)
	sort.Strings(gotNames)
	zzNote("wantNames", strings.Join(wantNames, ","))
	zzAssert(strings.Join(gotNames, ",") == strings.Join(wantNames, ","), "C14.attrs.names")
	for n, v := range want {
		zzNote("attr", n)
		zzAssert(got[n] == v, "C14.attrs.value")
	}
	if hasStyle {
		gotDecl := map[string]string{}
		for _, d := range strings.Split(got["style"], ";") {
			d = strings.TrimSpace(d)
			if d == "" {
				continue
			}
			kv := strings.SplitN(d, ":", 2)
			if len(kv) == 2 {
				gotDecl[strings.TrimSpace(kv[0])] = strings.TrimSpace(kv[1])
			}
		}
		zzAssert(len(gotDecl) == len(styleDecl), "C14.attrs.style-declarations")
		for k, v := range styleDecl {
			zzAssert(gotDecl[k] == v, "C14.attrs.style-value")
		}
	}
	for _, d := range []string{"v-if", "v-else", "v-for", "v-show", "v-once", "v-bind", ":", "["} {
		zzAssert(!strings.Contains(tag, " "+d), "C14.attrs.directive-leaked")
	}
}
