package vuego

import (
	"sort"
	"strings"
)

// C14 — attribute binding: falsy omits, class and style merge, directives never leak.

//verif:harness VerifC14_Attrs quick.maxpaths=100000 thorough.maxpaths=600000 timeout=3000
//verif:harness VerifC14_Repeated quick.maxpaths=20000 thorough.maxpaths=100000 timeout=1800

type zzAttrSpec struct {
	src  string // attribute as written in the template
	name string // source attribute name (to avoid writing one name twice)
}

var zzC14Catalogue = []zzAttrSpec{
	/* 0 */ {`id="s1"`, "id"},
	/* 1 */ {`data-i="x-{{ sv }}-y"`, "data-i"},
	/* 2 */ {`:href="sv"`, ":href"},
	/* 3 */ {`v-bind:alt="iv"`, "v-bind:alt"},
	/* 4 */ {`:hidden="fv"`, ":hidden"},
	/* 5 */ {`:data-z="zv"`, ":data-z"},
	/* 6 */ {`:data-n="nv"`, ":data-n"},
	/* 7 */ {`class="base"`, "class"},
	/* 8 */ {`:class="cv"`, ":class"},
	/* 9 */ {`:class="{on: tv, off: fv}"`, ":class"},
	/* 10 */ {`style="color:red;margin:0"`, "style"},
	/* 11 */ {`:style="{color: 'blue', fontSize: '12px'}"`, ":style"},
	/* 12 */ {`v-show="tv"`, "v-show"},
	/* 13 */ {`[data-lit]="a b"`, "[data-lit]"},
	/* 14 */ {`v-once`, "v-once"},
	/* 15 */ {`:title="bv"`, ":title"},
	/* 16 */ {`title="static-t"`, "title"},
	/* 17 */ {`:style="{margin: zv, zIndex: iv, color: bv}"`, ":style"},
	/* 18 */ {`style=""`, "style"},
	/* 19 */ {`v-text="tx"`, "v-text"},
	/* 20 */ {`v-html="hx"`, "v-html"},
	/* 21 */ {`style="color : red ; margin : 0"`, "style"},
}

// VerifC14_Attrs: differential against a reference attribute evaluator
// written from the statement, for elements reached through four different
// evaluation paths (plain, v-if branch, v-else branch, v-for root).
func VerifC14_Attrs() {
	nAttrs := zzBound("attrs", 2, 3)
	construct := zzChoice("construct", 4)
	var picked []int
	seen := map[string]bool{}
	var src strings.Builder
	// optionally start from a static attribute and a binding of the same name
	pre := [][]int{nil, {7, 8}, {7, 9}, {10, 11}, {16, 15}, {8, 7}, {10, 17}, {21, 11}, {21, 12}}[zzChoice("collision", 9)]
	for _, k := range pre {
		spec := zzC14Catalogue[k]
		seen[spec.name] = true
		picked = append(picked, k)
		src.WriteString(" " + spec.src)
	}
	for a := 0; a < nAttrs; a++ {
		k := zzChoice("attr", len(zzC14Catalogue)+1)
		if k == len(zzC14Catalogue) {
			continue // empty slot
		}
		spec := zzC14Catalogue[k]
		if seen[spec.name] {
			return // the same attribute written twice is not valid HTML
		}
		seen[spec.name] = true
		picked = append(picked, k)
		src.WriteString(" " + spec.src)
	}
	// the values are chosen only when a picked attribute reads them
	uses := func(ks ...int) bool {
		for _, p := range picked {
			for _, k := range ks {
				if p == k {
					return true
				}
			}
		}
		return false
	}
	sv := "ab"
	if uses(1, 2) {
		sv = []string{"", "ab"}[zzChoice("sv", 2)]
	}
	tv := true
	if uses(9, 12) {
		tv = zzBool("tv")
	}
	bkind := 0
	if uses(15, 17) {
		bkind = zzChoice("bkind", 7)
	}
	var bv any
	bvStr, bvTruthy := "", false
	switch bkind {
	case 0:
		bv, bvStr, bvTruthy = 3, "3", true
	case 1:
		bv, bvStr, bvTruthy = 0, "0", false
	case 2:
		bv, bvStr, bvTruthy = true, "true", true
	case 3:
		bv, bvStr, bvTruthy = "word", "word", true
	case 4: // the string form of a float32 is its shortest float32 representation
		bv, bvStr, bvTruthy = float32(0.1), "0.1", true
	case 5:
		bv, bvStr, bvTruthy = 1e21, "1e+21", true
	case 6:
		bv, bvStr, bvTruthy = int8(-3), "-3", true
	}
	data := map[string]any{"sv": sv, "iv": 7, "fv": false, "zv": 0, "tv": tv, "cv": "dyn", "bv": bv, "ok": true, "no": false, "items": []int{1}, "tx": "TEXT", "hx": "<u>H</u>"}

	var body string
	switch construct {
	case 0:
		body = `<p` + src.String() + `>T</p>`
	case 1:
		body = `<p v-if="ok"` + src.String() + `>T</p><p v-else>E</p>`
	case 2:
		body = `<b v-if="no">N</b><p v-else` + src.String() + `>T</p>`
	case 3:
		body = `<p v-for="it in items"` + src.String() + `>T</p>`
	}

	// ---- reference -------------------------------------------------------------
	want := map[string]string{}
	styleDecl := map[string]string{}
	hasStyle := false
	classParts := []string{}
	hasClass := false
	has := func(k int) bool {
		for _, p := range picked {
			if p == k {
				return true
			}
		}
		return false
	}
	for _, k := range picked {
		switch k {
		case 0:
			want["id"] = "s1"
		case 1:
			want["data-i"] = "x-" + sv + "-y"
		case 2:
			if sv != "" {
				want["href"] = sv
			}
		case 3:
			want["alt"] = "7"
		case 7:
			hasClass = true
			classParts = append([]string{"base"}, classParts...)
		case 8:
			hasClass = true
			classParts = append(classParts, "dyn")
		case 9:
			if tv {
				hasClass = true
				classParts = append(classParts, "on")
			}
		case 10, 21:
			hasStyle = true
			styleDecl["color"] = "red"
			styleDecl["margin"] = "0"
		case 18:
			// an empty static style is still the element's one style attribute
			hasStyle = true
		case 13:
			want["data-lit"] = "a b"
		case 15:
			if bvTruthy {
				want["title"] = bvStr
			}
		case 16:
			want["title"] = "static-t"
		}
	}
	if has(15) && has(16) && bvTruthy {
		want["title"] = bvStr // a truthy bound value replaces the static one
	}
	if has(12) && !tv {
		hasStyle = true
		styleDecl["display"] = "none"
	}
	if has(11) {
		hasStyle = true
		styleDecl["color"] = "blue"
		styleDecl["font-size"] = "12px"
	}
	if has(17) {
		// every property of the object contributes its value's string form,
		// zero and false included
		hasStyle = true
		styleDecl["margin"] = "0"
		styleDecl["z-index"] = "7"
		styleDecl["color"] = bvStr
	}
	if hasClass {
		want["class"] = strings.Join(classParts, " ")
	}

	out, err := zzRender(NewFS(nil), body, data)
	zzNote("template", body)
	zzNote("out", out)
	if err != nil {
		zzNote("err", err.Error())
	}
	zzAssert(err == nil, "C14.attrs.render-error")

	// ---- parse the open tag of the <p> that carries the attributes -----------------
	start := strings.Index(out, "<p")
	zzAssert(start >= 0, "C14.attrs.element-rendered")
	end := strings.Index(out[start:], ">")
	tag := out[start+2 : start+end]
	got := map[string]string{}
	order := []string{}
	rest := tag
	for {
		rest = strings.TrimLeft(rest, " ")
		if rest == "" {
			break
		}
		eq := strings.Index(rest, `="`)
		if eq < 0 {
			got[rest] = ""
			order = append(order, rest)
			break
		}
		name := rest[:eq]
		q := strings.Index(rest[eq+2:], `"`)
		got[name] = rest[eq+2 : eq+2+q]
		order = append(order, name)
		rest = rest[eq+2+q+1:]
	}
	zzNote("got", strings.Join(order, ","))

	var wantNames []string
	for n := range want {
		wantNames = append(wantNames, n)
	}
	if hasStyle {
		wantNames = append(wantNames, "style")
	}
	sort.Strings(wantNames)
	gotNames := append([]string{}, order...)
	sort.Strings(gotNames)
	zzNote("wantNames", strings.Join(wantNames, ","))
	zzAssert(strings.Join(gotNames, ",") == strings.Join(wantNames, ","), "C14.attrs.names")
	// content directives replace the element's content and leave its attributes alone
	switch {
	case has(19) && has(20):
	case has(19):
		zzAssert(strings.Contains(out, ">TEXT</p>"), "C14.attrs.v-text-content")
	case has(20):
		zzAssert(strings.Contains(out, "<u>H</u>"), "C14.attrs.v-html-content")
	default:
		zzAssert(strings.Contains(out, ">T</p>"), "C14.attrs.content-kept")
	}
	for n, v := range want {
		zzAssert(got[n] == v, "C14.attrs.value")
	}
	if hasStyle {
		gotDecl := map[string]string{}
		for _, d := range strings.Split(got["style"], ";") {
			d = strings.TrimSpace(d)
			if d == "" {
				continue
			}
			kv := strings.SplitN(d, ":", 2)
			if len(kv) == 2 {
				gotDecl[strings.TrimSpace(kv[0])] = strings.TrimSpace(kv[1])
			}
		}
		zzAssert(len(gotDecl) == len(styleDecl), "C14.attrs.style-declarations")
		for k, v := range styleDecl {
			zzAssert(gotDecl[k] == v, "C14.attrs.style-value")
		}
	}
	for _, d := range []string{"v-if", "v-else", "v-for", "v-show", "v-once", "v-bind", "v-text", "v-html", ":", "["} {
		for _, name := range order {
			zzAssert(!strings.HasPrefix(name, d), "C14.attrs.directive-leaked")
		}
	}
}

// VerifC14_Repeated: one element of the template is evaluated several times
// with different values (loop body, slot content filled once per iteration,
// slot used twice): every evaluation follows the rules for its own values,
// and the static attributes come out unchanged each time.
func VerifC14_Repeated() {
	how := zzChoice("how", 3)
	n := zzBound("rows", 2, 3)
	var rows []any
	var ons, bolds []bool
	var cnts []int
	for r := 0; r < n; r++ {
		on := zzBool("on")
		bold := zzBool("bold")
		cnt := []int{0, 3}[zzChoice("cnt", 2)] // a number read through a negated path
		ons, bolds, cnts = append(ons, on), append(bolds, bold), append(cnts, cnt)
		rows = append(rows, map[string]any{"id": r + 1, "on": on, "bold": bold, "cnt": cnt})
	}
	el := `<b style="color:red" class="base" title="static" v-show="ROW.on" :class="{bold: ROW.bold, empty: !ROW.cnt}" :data-id="ROW.id" :data-empty="!ROW.cnt" :data-full="ROW.cnt">x</b>`
	var body string
	switch how {
	case 0: // loop body
		body = `<ul><li v-for="row in rows">` + strings.ReplaceAll(el, "ROW", "row") + `</li></ul>`
	case 1: // scoped slot content, the slot sits in a loop
		body = `<template include="rowsc.vuego"><template #default="p">` + strings.ReplaceAll(el, "ROW", "p.row") + `</template></template>`
	case 2: // plain slot content with a nested loop, the slot is used twice
		body = `<template include="twicec.vuego"><i v-for="row in rows">` + strings.ReplaceAll(el, "ROW", "row") + `</i></template>`
	}
	fsys := newZZFS(map[string]string{
		"rowsc.vuego":  `<ul><li v-for="row in rows"><slot :row="row"></slot></li></ul>`,
		"twicec.vuego": `<div><slot></slot><u>+</u><slot></slot></div>`,
	})
	out, err := zzRenderVia(zzEntry(), fsys, nil, body, map[string]any{"rows": rows})
	zzNote("template", body)
	zzNote("out", out)
	zzAssert(err == nil, "C14.repeated.render-error")
	uses := 1
	if how == 2 {
		uses = 2
	}
	rest := out
	for u := 0; u < uses; u++ {
		for r := 0; r < n; r++ {
			p := strings.Index(rest, "<b ")
			zzAssert(p >= 0, "C14.repeated.instance-missing")
			q := strings.Index(rest[p:], ">")
			tag := rest[p : p+q]
			rest = rest[p+q:]
			zzAssert(strings.Contains(tag, `data-id="`+string(rune('1'+r))+`"`), "C14.repeated.bound-value")
			zzAssert(strings.Contains(tag, "color:red"), "C14.repeated.static-style-kept")
			zzAssert(strings.Contains(tag, `title="static"`), "C14.repeated.static-attribute-kept")
			zzAssert(strings.Contains(tag, "display:none") == !ons[r], "C14.repeated.v-show")
			zzAssert(strings.Contains(tag, "bold") == bolds[r], "C14.repeated.class-object")
			zzAssert(strings.Contains(tag, "empty") == (cnts[r] == 0) && strings.Contains(tag, "data-empty=") == (cnts[r] == 0), "C14.repeated.negated-path")
			zzAssert(strings.Contains(tag, "data-full=") == (cnts[r] != 0), "C14.repeated.falsy-omitted")
			zzAssert(strings.Contains(tag, "base"), "C14.repeated.static-class-kept")
			zzAssert(!strings.Contains(tag, "v-show") && !strings.Contains(tag, ":class"), "C14.repeated.directive-leaked")
		}
	}
	zzAssert(!strings.Contains(rest, "<b "), "C14.repeated.extra-instance")
}
