package vuego

import (
	"strconv"
	"strings"
)

// C11 — every render call returns: no panic, no unbounded recursion.
//
// A path that ends in a Go panic, exceeds the call-depth / unwinding bound or
// the step budget is reported by the engine itself (kinds panic / unwind /
// steps); the assertions below only add "an error, not output" where the
// statement demands it.

//verif:harness VerifC11_Kernels quick.maxpaths=100000 thorough.maxpaths=600000 timeout=3000 unwind=48
//verif:harness VerifC11_WrongTypes quick.maxpaths=60000 thorough.maxpaths=300000 timeout=2400
//verif:harness VerifC11_Cycles confirmbounds quick.maxpaths=20000 thorough.maxpaths=100000 timeout=2400 steps=60000000 depth=3000
//verif:harness VerifC11_TemplateBytes quick.maxpaths=100000 thorough.maxpaths=600000 timeout=3000 unwind=64 steps=10000000
//verif:harness VerifC11_CallFunc quick.maxpaths=60000 thorough.maxpaths=300000 timeout=2400
//verif:harness VerifC11_ManyPaths confirmbounds quick.maxpaths=2000 thorough.maxpaths=2000 timeout=1800 steps=200000000
//verif:harness VerifC11_Features confirmbounds quick.maxpaths=20000 thorough.maxpaths=100000 timeout=2400 steps=20000000

// VerifC11_Kernels: the string kernels behind paths, expressions and loops
// on arbitrary short byte strings (index and slice bounds for every input).
func VerifC11_Kernels() {
	n := zzBound("N", 3, 4)
	k := zzChoice("kernel", 8)
	s := zzStringIn("s", n, "a.[]'\" (),|{}=!-:1")
	switch k {
	case 0:
		_ = splitPathImpl(s)
	case 1:
		_, _, _ = parseFor(s)
	case 2:
		_ = parseArgs(s)
	case 3:
		_ = (&Vue{}).splitObjectItems(s)
	case 4:
		_ = parsePipeExpr(s)
	case 5:
		_ = classifySegment(s)
	case 6:
		_, _, _ = extractFrontMatter([]byte("---" + s))
	case 7:
		_ = camelToKebab(s)
		_ = parseValue(s)
		_ = parseStyleMap(s)
	}
}

// VerifC11_TemplateBytes: a short arbitrary text / attribute / directive
// value inside a fixed element skeleton goes through evaluation and
// serialisation without a panic (the HTML parser is bypassed by building the
// DOM directly, as for C01).
func VerifC11_TemplateBytes() {
	n := zzBound("N", 3, 4)
	pos := zzChoice("pos", 6)
	s := zzStringIn("s", n, "{}a.[]'|( )!=-")
	data := map[string]any{"a": map[string]any{"a": []any{1, "x"}}, "xs": []string{"p"}}
	var body string
	switch pos {
	case 0:
		body = "<p>T</p>"
	default:
		body = "<p>T</p>"
	}
	_ = body
	vue := NewVue(nil)
	p := zzElem("p")
	switch pos {
	case 0:
		p.AppendChild(zzText(s))
	case 1:
		p.Attr = append(p.Attr, zzAttr("title", s))
	case 2:
		p.Attr = append(p.Attr, zzAttr(":title", s))
	case 3:
		p.Attr = append(p.Attr, zzAttr("v-if", s))
	case 4:
		p.Attr = append(p.Attr, zzAttr("v-for", s))
	case 5:
		p.Attr = append(p.Attr, zzAttr("v-text", s))
	}
	w := &zzWriter{limit: 1 << 20}
	_ = vue.RenderNodes(w, zzNodes(p), data)
}

// VerifC11_WrongTypes: typed Go data of the wrong kind in every directive position.
func VerifC11_WrongTypes() {
	kind := zzChoice("kind", 10)
	var v any
	switch kind {
	case 0:
		v = 42
	case 1:
		v = "str"
	case 2:
		v = nil
	case 3:
		v = []int{1, 2}
	case 4:
		v = map[string]any{"k": 1}
	case 5:
		v = struct {
			A int
			b string
		}{1, "x"}
	case 6:
		x := 3
		v = &x
	case 7:
		v = true
	case 8:
		v = 2.5
	case 9:
		v = map[int]string{1: "a"}
	}
	tpls := []string{
		`<p style="color:red" :style="v">s</p>`,
		`<p class="k" :class="v">c</p>`,
		`<p v-for="x in v">{{ x }}</p>`,
		`<p v-for="(i, x) in v.b">{{ x }}</p>`,
		`<p v-if="v">{{ v.b }}{{ v.A }}{{ v[0] }}{{ v.k.z }}</p>`,
		`<p v-show="v" v-text="v"></p>`,
		`<p v-html="v"></p>`,
		`<p :title="v.b" :data-x="v[1]">{{ v | len }}{{ v | upper }}{{ v | int }}</p>`,
		`<div><template include="c.vuego" :p="v"></template></div>`,
		`<p>{{ v.b.c.d }}{{ v.1 }}{{ v['b'] }}</p>`,
	}
	t := tpls[zzChoice("tpl", len(tpls))]
	out, err := zzRender(NewFS(newZZFS(map[string]string{"c.vuego": `<i :x="p">{{ p }}{{ p.b }}</i>`})), t, map[string]any{"v": v})
	zzNote("template", t)
	zzNote("out", out)
	if err != nil {
		zzNote("err", err.Error())
	}
}

// VerifC11_Cycles: include and layout graphs with every cycle shape return an
// error instead of exhausting the stack, and slots that refer to themselves end.
func VerifC11_Cycles() {
	shape := zzChoice("shape", 14)
	files := map[string]string{}
	page := "a.vuego"
	wantErr := true
	switch shape {
	case 0: // self include
		files["a.vuego"] = `<div><template include="a.vuego"></template></div>`
	case 1: // 2-cycle
		files["a.vuego"] = `<div><template include="b.vuego"></template></div>`
		files["b.vuego"] = `<p><template include="a.vuego"></template></p>`
	case 2: // 3-cycle through a loop and a condition
		files["a.vuego"] = `<div><template include="b.vuego"></template></div>`
		files["b.vuego"] = `<p v-for="i in xs"><template include="c.vuego"></template></p>`
		files["c.vuego"] = `<i v-if="ok"><template include="a.vuego"></template></i>`
	case 3: // layout cycle
		files["a.vuego"] = "---\nlayout: l1\n---\n<p>x</p>"
		files["layouts/l1.vuego"] = "---\nlayout: l2\n---\n<div v-html=\"content\"></div>"
		files["layouts/l2.vuego"] = "---\nlayout: l1\n---\n<div v-html=\"content\"></div>"
	case 4: // supplied slot content that contains the same slot
		files["a.vuego"] = `<div><template include="card.vuego"><slot></slot></template></div>`
		files["card.vuego"] = `<section><slot>FB</slot></section>`
		wantErr = false
	case 5: // shorthand component that uses itself
		files["a.vuego"] = `<div><my-box></my-box></div>`
		files["components/my-box.vuego"] = `<b><my-box></my-box></b>`
		wantErr = zzBool("either") // resolved inside components or not: it only has to return
		if !wantErr {
			fsys := newZZFS(files)
			w := &zzWriter{limit: 1 << 20}
			_ = NewFS(fsys, WithComponents()).RenderFile(contextBackground(), w, page)
			return
		}
		return
	case 7: // cycle in which every lap passes through supplied slot content
		files["a.vuego"] = `<template include="card.vuego"><template include="a.vuego"></template></template>`
		files["card.vuego"] = `<div class="card"><slot></slot></div>`
	case 8: // cycle through a slot's fallback content
		files["a.vuego"] = `<div><template include="box.vuego"></template></div>`
		files["box.vuego"] = `<section><slot><template include="box.vuego"></template></slot></section>`
	case 9: // cycle through a named, scoped slot inside a loop
		files["a.vuego"] = `<template include="list.vuego"><template #row="r"><template include="a.vuego"></template></template></template>`
		files["list.vuego"] = `<ul><li v-for="i in xs"><slot name="row" :i="i"></slot></li></ul>`
	case 10: // a file whose root element is the include of itself
		files["a.vuego"] = `<template include="a.vuego"></template>`
	case 11: // 2-cycle of root-level includes
		files["a.vuego"] = `<template include="b.vuego"></template>`
		files["b.vuego"] = `<template include="a.vuego"></template>`
	case 12: // a layout that uses a slot inherited from the page twice
		files["a.vuego"] = "---\nlayout: two\n---\n<template #x><b>X</b></template><p>body</p>"
		files["layouts/two.vuego"] = `<div><slot name="x"></slot><slot name="x"></slot></div><main v-html="content"></main>`
		wantErr = false
	case 13: // supplied slot content that contains the same slot, at top level
		files["a.vuego"] = `<template include="card.vuego"><template #title><slot name="title">Untitled</slot></template></template>`
		files["card.vuego"] = `<section><slot name="title">FB</slot></section>`
		wantErr = false
	case 6: // deep but finite nesting
		files["a.vuego"] = `<div><template include="b.vuego"></template></div>`
		files["b.vuego"] = `<p><template include="c.vuego"></template></p>`
		files["c.vuego"] = `<i>end</i>`
		wantErr = false
	}
	fsys := newZZFS(files)
	w := &zzWriter{limit: 1 << 20}
	err := NewFS(fsys, WithComponents()).Fill(map[string]any{"xs": []int{1}, "ok": true}).RenderFile(contextBackground(), w, page)
	if err != nil {
		zzNote("err", err.Error()[:zzMin(len(err.Error()), 160)])
	}
	zzNote("outlen", len(w.got))
	if wantErr {
		zzAssert(err != nil, "C11.cycles.unbounded-recursion-must-be-an-error")
		zzAssert(len(w.got) == 0, "C11.cycles.error-wrote-output")
	} else {
		zzAssert(err == nil, "C11.cycles.finite-nesting-renders")
	}
}

func zzMin(a, b int) int {
	if a < b {
		return a
	}
	return b
}

// VerifC11_CallFunc: every pairing of argument kind and parameter kind goes
// through reflection-based conversion and call without a panic.
func VerifC11_CallFunc() {
	funcs := FuncMap{
		"fi":   func(n int) int { return n },
		"fu8":  func(n uint8) uint8 { return n },
		"ff":   func(f float64) float64 { return f },
		"fs":   func(s string) string { return s },
		"fb":   func(b bool) bool { return b },
		"fany": func(v any) any { return v },
		"fsl":  func(s []string) int { return len(s) },
		"fvar": func(sep string, xs ...int) int { return len(xs) },
		"fctx": func(ctx *VueContext, s string) string { return s },
		"f0":   func() string { return "z" },
		"f2":   func(a, b int) (int, error) { return a + b, nil },
		"fcv":  func(ctx *VueContext, label string, nums ...int) int { return len(nums) },
		"fca":  func(ctx *VueContext, vals ...any) int { return len(vals) },
	}
	names := []string{"fi", "fu8", "ff", "fs", "fb", "fany", "fsl", "fvar", "fctx", "f0", "f2", "fcv", "fca"}
	fn := names[zzChoice("fn", len(names))]
	var v any
	switch zzChoice("arg", 9) {
	case 0:
		v = 5
	case 1:
		v = -5
	case 2:
		v = "7"
	case 3:
		v = "abc"
	case 4:
		v = 2.5
	case 5:
		v = true
	case 6:
		v = nil
	case 7:
		v = []string{"a"}
	case 8:
		v = map[string]any{"k": 1}
	}
	extra := []string{"", "(1)", "(1, 2)", "('x')", "(v)"}[zzChoice("extra", 5)]
	t := `<p>{{ v | ` + fn + extra + ` }}</p>`
	out, err := zzRender(NewFS(nil, WithFuncs(funcs)), t, map[string]any{"v": v})
	zzNote("template", t)
	zzNote("out", out)
	if err != nil {
		zzNote("err", err.Error())
		zzAssert(strings.Contains(err.Error(), fn), "C11.callfunc.error-names-function")
	}
}

// ---- feature programs --------------------------------------------------------------

type zzC11Base struct{ ID int }

// a struct whose embedded pointer may be nil: ID is promoted through it
type zzC11User struct {
	*zzC11Base
	Name string
}

type zzC11Named string

// values whose String method panics: a nil pointer with a pointer-receiver
// method that reads a field, and an enumeration outside its name table
type zzC11Level struct{ n int }

func (l *zzC11Level) String() string { return "L" + strconv.Itoa(l.n) }

type zzC11Enum int

var zzC11EnumNames = []string{"zero", "one"}

func (e zzC11Enum) String() string { return zzC11EnumNames[e] }

var zzC11Programs = []string{
	/* 0 */ `<div><template include="once.vuego"></template><template include="once.vuego"></template></div>`, // v-once only inside a component
	/* 1 */ `<template include="two.vuego"><template v-html="h"></template></template>`, // <template v-html> as slot content used twice
	/* 2 */ `<p>{{ u.ID }}|{{ u.Name }}|{{ pu.ID }}|{{ pu.Name }}</p>`, // promoted field through a nil embedded pointer
	/* 3 */ `<p v-if="u.ID">a</p><p v-else :title="pu.ID">b</p>`,
	/* 4 */ `<ul><li v-for="(i, x) in np">{{ i }}{{ x }}</li><li v-else>none</li></ul>`, // nil typed pointer / nil slice as a collection
	/* 5 */ `<template include="two.vuego"><b v-once>{{ nm }}</b><template v-for="x in xs"><i v-once>{{ x }}</i></template></template>`,
	/* 6 */ `<p :class="{a: nm, b: u.ID}" :style="{width: nm}">{{ nm | upper }}</p>`,
	/* 7 */ `<template include="once.vuego"><template #x="p">{{ p.q.r }}</template></template>`,
	/* 8 */ `<p v-text="pu.Name"></p><p v-html="u.Name"></p><template v-html="nm"></template>`,
	/* 9 */ `<div v-for="x in xs" v-once><template include="once.vuego"></template></div>`,
	/* 10 */ `<p>{{ lv }}|{{ en }}|{{ oklv }}</p><a title="t {{ lv }}" :data-e="en" :data-l="lv">x</a><i v-text="en"></i><ul><li v-for="e in ens" :title="e">{{ e }}</li></ul>`,
	/* 11 */ `<p v-if="lv">{{ lv | string }}</p><p v-show="en" :class="{a: en, b: lv}">{{ en | upper }}</p><template include="once.vuego" :nm="en"></template>`,
}

// VerifC11_Features: small programs that combine the engine's features with
// unusual but legal data (nil embedded pointers, named types, nil
// collections) return - with a document or an error - through every entry
// point; a panic or a render that does not end is the violation.
func VerifC11_Features() {
	k := zzChoice("program", len(zzC11Programs))
	fsys := newZZFS(map[string]string{
		"once.vuego": `<section><em v-once>E</em><slot name="x" :q="nm">fb</slot></section>`,
		"two.vuego":  `<div><slot></slot> <slot></slot></div>`,
	})
	var np *[]int
	data := map[string]any{
		"u":  zzC11User{Name: "n"},
		"pu": &zzC11User{zzC11Base: &zzC11Base{ID: 7}, Name: "p"},
		"np": np,
		"nm": zzC11Named("named"),
		"xs": []zzC11Named{"x1", "x2"},
		"h":  "<b>hi</b>",
		// the values of programs 10 and 11
		"lv":   (*zzC11Level)(nil),
		"oklv": &zzC11Level{n: 1},
		"en":   zzC11Enum(5),
		"ens":  []zzC11Enum{0, 7},
	}
	out, err := zzRenderVia(zzEntry(), fsys, nil, zzC11Programs[k], data)
	zzNote("template", zzC11Programs[k])
	zzNote("out", out)
	if err != nil {
		zzNote("err", err.Error()[:zzMin(len(err.Error()), 160)])
	}
	// promoted fields resolve like ordinary Go field access, a nil embedded pointer is absence
	if k == 2 && err == nil {
		zzAssert(strings.Contains(out, "|n|7|p"), "C11.features.promoted-fields")
	}
}

// VerifC11_ManyPaths: a process that has resolved more distinct dotted and
// bracketed paths than any internal cache holds keeps rendering: every call
// returns.
func VerifC11_ManyPaths() {
	n := []int{200, 300, 520}[zzChoice("paths", zzBound("sizes", 2, 3))]
	row := map[string]any{}
	var body strings.Builder
	for k := 0; k < n; k++ {
		key := "k" + strconv.Itoa(k)
		row[key] = k
		if k%2 == 0 {
			body.WriteString("{{ row." + key + " }} ")
		} else {
			body.WriteString("{{ row['" + key + "'] }} ")
		}
	}
	data := map[string]any{"row": row, "a": map[string]any{"b": []any{"deep"}}}
	entry := zzEntry()
	out, err := zzRenderVia(entry, nil, nil, "<p>"+body.String()+"</p>", data)
	zzAssert(err == nil && strings.Contains(out, " "+strconv.Itoa(n-1)+" "), "C11.manypaths.first-render")
	// and afterwards, on a new engine in the same process
	out2, err2 := zzRenderVia(entry, nil, nil, `<p :title="a.b[0]">{{ a.b[0] }} {{ row.k1 }} {{ a['b'][0] }}</p>`, data)
	zzNote("out2", out2)
	zzAssert(err2 == nil && strings.Contains(out2, "deep 1 deep"), "C11.manypaths.later-render")
}
