package vuego

import (
	"strings"

	"golang.org/x/net/html"
)

// C01 — data values are inert.
//
// Each harness renders a concrete template twice through the public API: once
// with a harmless word and once with an arbitrary (symbolic) value reaching
// an escaped sink. The HTML token structure of both outputs must agree: the
// value may only contribute characters to one text run / attribute value.

//verif:harness VerifC01_SinkShape quick.maxpaths=30000 thorough.maxpaths=200000 timeout=1500
//verif:harness VerifC01_Mustache quick.maxpaths=30000 thorough.maxpaths=200000 timeout=1500
//verif:harness VerifC01_Neighbourhood quick.maxpaths=30000 thorough.maxpaths=200000 timeout=1500
//verif:harness VerifC01_AttrKernel quick.maxpaths=30000 thorough.maxpaths=200000 timeout=1500
//verif:harness VerifC01_Pairs quick.maxpaths=60000 thorough.maxpaths=300000 timeout=2400
//verif:harness VerifC01_RawTextParents quick.maxpaths=30000 thorough.maxpaths=200000 timeout=1500

// a string value whose Go type is not string
type zzC01Named string

const zzC01Hostile = "<>&\"';#{}/ a"

var zzC01Sinks = []string{
	/* 0 */ `<p>{{ val }}</p>`,
	/* 1 */ `<p>a {{ val }} b<i>x</i></p>`,
	/* 2 */ `<p v-text="val"></p>`,
	/* 3 */ `<a title="x {{ val }} y">t</a>`,
	/* 4 */ `<a :title="val">t</a>`,
	/* 5 */ `<a v-bind:title="val">t</a>`,
	/* 6 */ `<div v-if="ok"><p>{{ val }}</p><a :href="val">l</a></div><div v-else>no</div>`,
	/* 7 */ `<ul><li v-for="it in items" :title="it">{{ it }}</li></ul>`,
	/* 8 */ `<ul><li v-for="it in items"><b :title="it">{{ it }}</b></li></ul>`,
	/* 9 */ `<div><template include="c.vuego" :p="val" q="{{ val }}"></template></div>`,
	/* 10 */ `<div><template include="s.vuego"><template v-slot="sp"><em :title="sp.item">{{ sp.item }}</em></template></template></div>`,
	/* 11 */ `<p class="k" :class="val">c</p>`,
	/* 12 */ `<p v-if="no">x</p><p v-else :id="val">{{ val }}</p>`,
	/* 13 */ `<template v-for="it in items"><i>{{ it }}</i></template>`,
	/* 14 */ `<p class="box {{ w }}" :class="val">c</p>`,
	/* 15 */ `<a title="t {{ w }}" :title="val">t</a>`,
	/* 16 */ `<p style="color:{{ w }}" :style="val">s</p>`,
	/* 17 */ `<p v-show="no" :data-x="val" data-y="{{ val }}">s</p>`,
	/* 18 */ `<q v-if="no">n</q><q v-else-if="ok" :title="val" class="{{ w }}">{{ val }}</q>`,
	/* 19 */ `<ul><li v-for="(i, it) in items" v-if="i == 0" :title="it">{{ it }}</li></ul>`,
	/* 20 */ `<div><template include="t.vuego" :p="val" q="{{ val }}"></template></div>`,
	/* 21 */ `<div><template include="s2.vuego"><template include="c.vuego" :p="val" q="{{ val }}"></template></template></div>`,
	/* 22 */ `<div><template include="s2.vuego"><b :title="val">{{ val }}</b></template></div>`,
	/* 23 */ `<template include="c.vuego" :p="val" q="{{ val }}"></template>`,
	/* 24 */ `<p v-text="val" v-show="no"></p><p v-text="val" v-show="ok" class="{{ w }}"></p>`,
	/* 25 */ `<p v-text="val" :title="val" v-show="no" data-w="{{ w }}"></p>`,
	/* 26 */ `<ul><li v-for="it in items" v-text="it" v-show="no"></li></ul><q v-if="ok" v-text="val" v-show="no"></q>`,
	/* 27 */ `<p v-text="val | escape"></p><p v-text="named | escape"></p><p v-text="named"></p><p>{{ named }}</p>`,
	/* 28 */ `<p v-text="items | escape"></p><p v-text="items"></p><p :title="items">{{ items }}</p><p v-text="boxed | escape"></p>`,
	// bound attributes whose expression is written with a mustache
	/* 29 */ `<a :title="{{ val }}">t</a><p :data-x="{{ val }}" :class="{{ val }}">c</p>`,
	/* 30 */ `<div><template include="c.vuego" :p="{{ val }}" q="x"></template></div><ul><li v-for="it in items" :title="{{ it }}">i</li></ul>`,
}

func zzC01FS() *zzFS {
	return newZZFS(map[string]string{
		"c.vuego": `<span :title="p">{{ p }} {{ q }}</span>`,
		"s.vuego": `<section><slot :item="val"></slot></section>`,
		// a component whose root is a <template> element
		"t.vuego": `<template><span :title="p">{{ p }} {{ q }}</span></template>`,
		// a component that uses its default slot twice
		"s2.vuego": `<section><slot></slot><hr><slot></slot></section>`,
	})
}

func zzC01Render(entry, k int, val string) (string, error) {
	data := map[string]any{"val": val, "ok": true, "no": false, "items": []string{val, "w"}, "k": "QQQ", "w": "word",
		"named": zzC01Named(val), "boxed": map[string]any{"v": val}}
	return zzRenderVia(entry, zzC01FS(), nil, zzC01Sinks[k], data)
}

// VerifC01_SinkShape: token structure with an arbitrary value equals the
// structure with a harmless word, for every escaped sink of the catalogue.
func VerifC01_SinkShape() {
	k := zzChoice("sink", len(zzC01Sinks))
	n := zzBound("N", 3, 5)
	val := zzStringIn("val", n, zzC01Hostile)
	entry := zzEntry()
	base, err0 := zzC01Render(entry, k, "word")
	zzAssert(err0 == nil, "C01.sink.baseline-renders")
	out, err := zzC01Render(entry, k, val)
	zzAssert(err == nil, "C01.sink.render-error")
	zzCover(len(val) == n, "full-length value reaches the sink")
	zzNote("template", zzC01Sinks[k])
	zzNote("out", out)
	if val == "" {
		return // empty values legitimately drop bound attributes
	}
	zzAssert(zzTagOpens(out) == zzTagOpens(base), "C01.sink.tagopens")
	zzAssert(zzTagQuotes(out) == zzTagQuotes(base), "C01.sink.quotes")
}

// VerifC01_Mustache: mustache syntax inside a data value is emitted
// literally, never evaluated against the scope (k is bound to QQQ).
func VerifC01_Mustache() {
	k := zzChoice("sink", len(zzC01Sinks))
	n := zzBound("N", 5, 7)
	// "{{ k }}" and the object-literal shape "{k:k}" both name the scope variable k
	val := zzStringIn("val", n, "{}k: ")
	zzAssume(zzContains(val, "{") && zzContains(val, "k"))
	out, err := zzC01Render(zzEntry(), k, val)
	zzNote("template", zzC01Sinks[k])
	zzNote("out", out)
	if err != nil {
		zzNote("err", err.Error())
	}
	zzAssert(err == nil, "C01.mustache.render-error")
	zzAssert(!zzContains(out, "QQQ"), "C01.mustache.evaluated")
}

// VerifC01_Neighbourhood: the static neighbourhood of the sink is symbolic
// (decoded static text with entities, quotes, angle brackets); the DOM is
// built directly, evaluated and serialised by the real code.
func VerifC01_Neighbourhood() {
	n := zzBound("N", 2, 3)
	pre := zzStringIn("pre", n, zzC01Hostile)
	post := zzStringIn("post", n, zzC01Hostile)
	val := zzStringIn("val", zzBound("NV", 3, 4), zzC01Hostile)
	zzAssume(!zzContains(pre, "{") && !zzContains(post, "{") && !zzContains(pre, "}") && !zzContains(post, "}"))
	kind := zzChoice("kind", 2)
	render := func(v string) string {
		p := &html.Node{Type: html.ElementNode, Data: "p"}
		if kind == 0 {
			p.AppendChild(&html.Node{Type: html.TextNode, Data: pre + "{{ val }}" + post})
		} else {
			p.Attr = []html.Attribute{{Key: "title", Val: pre + "{{ val }}" + post}}
			p.AppendChild(&html.Node{Type: html.TextNode, Data: "t"})
		}
		vue := NewVue(nil)
		var sb stringsBuilder
		err := vue.RenderNodes(&sb, []*html.Node{p}, map[string]any{"val": v})
		zzAssert(err == nil, "C01.nbh.render-error")
		return sb.String()
	}
	base := render("word")
	out := render(val)
	zzNote("base", base)
	zzNote("out", out)
	zzAssert(zzTagOpens(out) == zzTagOpens(base), "C01.nbh.tagopens")
	zzAssert(zzTagQuotes(out) == zzTagQuotes(base), "C01.nbh.quotes")
}

// VerifC01_AttrKernel: the serialiser's attribute sink on its own, with a
// longer value (this is where content sniffing decides).
func VerifC01_AttrKernel() {
	n := zzBound("N", 6, 9)
	val := zzString("val", n)
	out := renderAttrs([]html.Attribute{{Key: "title", Val: val}})
	zzCover(len(val) == n, "full-length value reaches the sink")
	zzNote("out", out)
	zzAssert(zzCountByte(out, '"') == 2, "C01.attr.breakout")
	zzAssert(zzCountByte(out, '<') == 0, "C01.attr.lt")
}

// VerifC01_RawTextParents: a value interpolated inside an element whose
// content the HTML5 tokenizer reads as raw text or RCDATA (everything but
// script and style, which the statement exempts) cannot end that element:
// the only thing that ends raw text is the element's own end tag, so the
// output must contain exactly as many of them as with a harmless word
// (lower-case spellings; the tokenizer automaton of the other harnesses does
// not model raw text, so it is not used here).
func VerifC01_RawTextParents() {
	parents := []string{"xmp", "noscript", "title", "iframe", "textarea", "noembed", "noframes"}
	k := zzChoice("parent", zzBound("parents", 5, len(parents)))
	tag := parents[k]
	form := zzChoice("form", 2)
	val := zzStringIn("val", len(tag)+3, "</> "+tag)
	tpl := "<div><" + tag + ">{{ val }}</" + tag + "><i>after</i></div>"
	if form == 1 {
		tpl = "<div><" + tag + ` v-text="val"></` + tag + "><i>after</i></div>"
	}
	render := func(v string) string {
		out, err := zzRender(NewFS(nil), tpl, map[string]any{"val": v})
		zzAssert(err == nil, "C01.rawtext.render-error")
		return out
	}
	base := render("word")
	out := render(val)
	zzNote("template", tpl)
	zzNote("out", out)
	end := "</" + tag
	zzAssert(strings.Count(out, end) == strings.Count(base, end), "C01.rawtext.value-ends-the-element")
}

// ---- directive pairs -----------------------------------------------------------------

// ways in which one element can use the value, and directives that may sit next to them
var zzC01Uses = []string{
	`v-text="val"`,
	`:title="val"`,
	`title="x {{ val }} y"`,
	`:class="val"`,
	`class="c {{ val }}"`,
	`:data-v="val"`,
	`:title="{{ val }}"`,
}

var zzC01Companions = []string{
	``,
	`v-show="no"`,
	`v-show="ok"`,
	`v-if="ok"`,
	`v-for="it in one"`,
	`style="color:red" v-show="no"`,
	`:id="w"`,
	`id="i-{{ w }}"`,
	`v-once`,
	`:style="{color: w}"`,
}

// VerifC01_Pairs: every use of the value on an element combined with every
// companion directive on the same element, in both attribute orders: the
// value stays inert (structure as with a harmless word, mustaches in it never
// evaluated).
func VerifC01_Pairs() {
	u1 := zzChoice("use", len(zzC01Uses))
	u2 := zzChoice("use2", len(zzC01Uses)+1) // optionally a second use
	c := zzChoice("companion", len(zzC01Companions))
	attrs := []string{zzC01Uses[u1]}
	if u2 < len(zzC01Uses) {
		n1 := zzC01Uses[u1][:strings.IndexByte(zzC01Uses[u1], '=')]
		n2 := zzC01Uses[u2][:strings.IndexByte(zzC01Uses[u2], '=')]
		if strings.TrimPrefix(n1, ":") == strings.TrimPrefix(n2, ":") {
			return // the same attribute twice
		}
		attrs = append(attrs, zzC01Uses[u2])
	}
	if zzC01Companions[c] != "" {
		if zzBool("companionFirst") {
			attrs = append([]string{zzC01Companions[c]}, attrs...)
		} else {
			attrs = append(attrs, zzC01Companions[c])
		}
	}
	inner := "t"
	if u1 != 0 && u2 != 0 && zzBool("textToo") {
		inner = "a {{ val }} b"
	}
	tpl := `<div><p ` + strings.Join(attrs, " ") + `>` + inner + `</p><i>after</i></div>`
	entry := zzEntry()
	render := func(v string) (string, error) {
		data := map[string]any{"val": v, "ok": true, "no": false, "one": []string{"x"}, "k": "QQQ", "w": "word"}
		return zzRenderVia(entry, nil, nil, tpl, data)
	}
	base, err0 := render("word")
	zzAssert(err0 == nil, "C01.pairs.baseline-renders")
	mode := zzChoice("mode", 3)
	zzNote("template", tpl)
	if mode == 0 {
		val := zzStringIn("val", zzBound("NP", 3, 4), zzC01Hostile)
		out, err := render(val)
		zzNote("out", out)
		zzAssert(err == nil, "C01.pairs.render-error")
		if val == "" {
			return
		}
		zzAssert(zzTagOpens(out) == zzTagOpens(base), "C01.pairs.tagopens")
		zzAssert(zzTagQuotes(out) == zzTagQuotes(base), "C01.pairs.quotes")
		return
	}
	hostile := "a {{ k }} b"
	if mode == 2 {
		hostile = "{k: k}"
	}
	out, err := render(hostile)
	zzNote("out", out)
	zzAssert(err == nil, "C01.pairs.render-error")
	zzAssert(!zzContains(out, "QQQ"), "C01.pairs.mustache-evaluated")
}
