package vuego

import (
	"context"
	"strings"
)

// C12 — output is all-or-nothing and writer failures are reported.

//verif:harness VerifC12_LargeDocument quick.maxpaths=20000 thorough.maxpaths=100000 timeout=1800 steps=60000000
//verif:harness VerifC12_FailingFunctions quick.maxpaths=20000 thorough.maxpaths=100000 timeout=1800 steps=20000000
//verif:harness VerifC12_AllOrNothing poolreuse=lifo quick.maxpaths=60000 thorough.maxpaths=400000 timeout=2400 steps=20000000

func zzC12FS() *zzFS {
	return newZZFS(map[string]string{
		"page.vuego":         `<h1>{{ title }}</h1><template include="c.vuego" :n="n"></template><ul><li v-for="i in items">{{ i }}</li></ul>`,
		"c.vuego":            `<p>{{ n }}</p>`,
		"scr.vuego":          `<h1>{{ title }}</h1><p>intro</p><script>var q = "{{ endtag }}";</script><style>p::after { content: "{{ endtag }}" }</style><i>tail</i>`,
		"bad_early.vuego":    `<p>{{ title | nofn }}</p><h1>late</h1>`,
		"bad_late.vuego":     `<h1>ok</h1><ul><li v-for="i in items">{{ i | nofn }}</li></ul>`,
		"bad_mid.vuego":      `<p title="t-{{ title }}-{{ title | nofn }}">card {{ title }} / {{ n | nofn }}</p>`,
		"bad_inc.vuego":      `<h1>ok</h1><template include="missing.vuego"></template>`,
		"bad_req.vuego":      `<h1>ok</h1><template include="req.vuego"></template>`,
		"req.vuego":          `<template :required="must"><i>{{ must }}</i></template>`,
		"lp.vuego":           "---\nlayout: wrap\n---\n<p>{{ title }}</p>",
		"lbad.vuego":         "---\nlayout: badl\n---\n<p>{{ title }}</p>",
		"layouts/wrap.vuego": `<main><div v-html="content"></div><i>{{ title }}</i></main>`,
		"layouts/badl.vuego": `<main><div v-html="content"></div>{{ title | nofn }}</main>`,
	})
}

var zzC12Files = []string{"page.vuego", "bad_early.vuego", "bad_late.vuego", "bad_mid.vuego", "bad_inc.vuego", "bad_req.vuego", "lp.vuego", "lbad.vuego", "nofile.vuego", "scr.vuego"}

var zzC12Strings = []string{
	`<h1>{{ title }}</h1><template include="c.vuego" :n="n"></template>`,
	`<h1>{{ title }}</h1><p>{{ title | nofn }}</p>`,
	`<h1>ok</h1><template include="missing.vuego"></template>`,
	`<h1>ok</h1><template include="req.vuego"></template>`,
	`<h1>ok {{ title }} then {{ title | nofn }}</h1>`,
}

func zzC12Data() map[string]any {
	return map[string]any{"title": "T", "n": 7, "items": []int{1, 2}, "endtag": "</script></STYLE ><b>"}
}

// VerifC12_AllOrNothing: every entry point x program x writer failing at an
// arbitrary byte offset x cancelled context.
func VerifC12_AllOrNothing() {
	entry := zzChoice("entry", 5)
	cancelled := zzBool("cancelled")
	late := false
	var ctx context.Context = zzCtx{}
	if cancelled {
		ctx = zzCtx{err: context.Canceled}
	} else if zzBool("cancelledlater") {
		// alive at the first k consultations, cancelled afterwards
		calls := 0
		ctx = zzLateCtx{alive: zzChoice("alive", 3), calls: &calls}
		late = true
	}
	tpl := NewFS(zzC12FS()).Fill(zzC12Data())
	file, str := "", ""
	if entry < 2 {
		file = zzC12Files[zzChoice("file", len(zzC12Files))]
	} else {
		str = zzC12Strings[zzChoice("str", len(zzC12Strings))]
	}
	run := func(w *zzWriter) error {
		switch entry {
		case 0:
			return tpl.RenderFile(ctx, w, file)
		case 1:
			return tpl.Load(file).Render(ctx, w)
		case 2:
			return tpl.RenderString(ctx, w, str)
		case 3:
			return tpl.RenderByte(ctx, w, []byte(str))
		default:
			return tpl.RenderReader(ctx, w, strings.NewReader(str))
		}
	}
	// reference run into an unlimited writer with a live context
	refW := &zzWriter{limit: 1 << 20}
	savedCtx := ctx
	ctx = zzCtx{}
	refErr := run(refW)
	ctx = savedCtx
	doc := string(refW.got)
	zzNote("doc", doc)

	limit := zzInt("limit", 0, 200)
	w := &zzWriter{limit: limit, transient: zzBool("transientFailure")}
	err := run(w)
	zzNote("got", string(w.got))
	if err != nil {
		zzNote("err", err.Error())
	}

	// whatever happened, the next call on the same engine with a healthy
	// writer and a live context delivers exactly the document (or fails again)
	ctx = zzCtx{}
	again := &zzWriter{limit: 1 << 20}
	againErr := run(again)
	ctx = savedCtx
	if refErr == nil {
		zzAssert(againErr == nil && string(again.got) == doc, "C12.sequence.next-render-after-a-failure")
	} else {
		zzAssert(againErr != nil && len(again.got) == 0, "C12.sequence.next-render-after-a-failure")
	}

	// and a healthy program on the same engine delivers what a fresh engine delivers
	healthy := func(t Template) (string, error) {
		hw := &zzWriter{limit: 1 << 20}
		var herr error
		if entry < 2 {
			herr = t.RenderFile(zzCtx{}, hw, "page.vuego")
		} else {
			herr = t.RenderString(zzCtx{}, hw, zzC12Strings[0])
		}
		return string(hw.got), herr
	}
	hGot, hErr := healthy(tpl)
	hWant, hWantErr := healthy(NewFS(zzC12FS()).Fill(zzC12Data()))
	zzAssert(hErr == nil && hWantErr == nil && hGot == hWant, "C12.sequence.healthy-render-after-a-failure")

	if late {
		// whether the cancellation is noticed depends on when the engine
		// looks; what is fixed: an error means nothing was written, success
		// means the whole document was
		if err != nil && w.fails == 0 {
			// (a failing writer has its own clause; here the writer took everything it was given)
			zzAssert(len(w.got) == 0, "C12.ctx.error-after-output")
		} else if err == nil && refErr == nil && limit >= len(doc) {
			zzAssert(string(w.got) == doc, "C12.ok.incomplete-document")
		}
		return
	}
	if cancelled {
		zzAssert(err != nil, "C12.ctx.cancelled-must-fail")
		zzAssert(len(w.got) == 0, "C12.ctx.cancelled-wrote-output")
		return
	}
	if refErr != nil {
		// a failing program fails whatever the writer does, and writes nothing
		zzAssert(err != nil, "C12.error.not-reported")
		zzAssert(len(w.got) == 0, "C12.error.partial-output")
		return
	}
	zzCover(limit < len(doc), "writer fails inside the document")
	zzCover(limit >= len(doc), "writer large enough")
	if limit >= len(doc) {
		zzAssert(err == nil, "C12.ok.spurious-error")
		zzAssert(string(w.got) == doc, "C12.ok.incomplete-document")
	} else {
		zzAssert(w.fails > 0, "C12.writer.never-failed")
		zzAssert(err != nil, "C12.writer.failure-not-reported")
	}
}

// VerifC12_LargeDocument: the same clauses for a document of several
// kilobytes (larger than any chunk an implementation may buffer), with the
// writer failing at offsets around powers of two, through every entry point.
func VerifC12_LargeDocument() {
	n := zzBound("items", 300, 700)
	items := make([]int, n)
	for i := range items {
		items[i] = 100000 + i
	}
	fsys := newZZFS(map[string]string{
		"big.vuego":          `<ul><li v-for="i in items" class="row">item {{ i }}</li></ul>`,
		"lbig.vuego":         "---\nlayout: wrap\n---\n<ul><li v-for=\"i in items\" class=\"row\">item {{ i }}</li></ul>",
		"layouts/wrap.vuego": `<main><div v-html="content"></div></main>`,
	})
	entry := zzChoice("entry", 5)
	tpl := NewFS(fsys).Fill(map[string]any{"items": items})
	run := func(w *zzWriter) error {
		switch entry {
		case 0:
			return tpl.RenderFile(zzCtx{}, w, "big.vuego")
		case 1:
			return tpl.Load("big.vuego").Render(zzCtx{}, w)
		case 2:
			return tpl.Load("lbig.vuego").Render(zzCtx{}, w)
		case 3:
			return tpl.RenderString(zzCtx{}, w, `<ul><li v-for="i in items" class="row">item {{ i }}</li></ul>`)
		default:
			return NewVue(fsys).Render(w, "big.vuego", map[string]any{"items": items})
		}
	}
	ref := &zzWriter{limit: 1 << 24}
	zzAssert(run(ref) == nil, "C12.large.reference-render")
	size := len(ref.got)
	zzNote("size", size)
	zzAssert(size > 8192, "C12.large.document-is-large")
	offsets := []int{0, 1, 511, 512, 1023, 1024, 2047, 2048, 4095, 4096, 4097, 5000, 8191, 8192, 8193, size / 2, size - 4097, size - 4096, size - 1}
	limit := offsets[zzChoice("offset", len(offsets))]
	w := &zzWriter{limit: limit, transient: zzBool("transientFailure")}
	err := run(w)
	zzAssert(w.fails > 0, "C12.large.writer-never-failed")
	zzAssert(err != nil, "C12.writer.failure-not-reported")
	full := &zzWriter{limit: size}
	zzAssert(run(full) == nil && len(full.got) == size, "C12.ok.incomplete-document")
}

// error values of concrete types: a function registered with WithFuncs may
// declare its second result as any type that implements error
type zzC12QuotaErr struct{ n int }

func (e *zzC12QuotaErr) Error() string { return "quota exceeded" }

type zzC12Errs []string

func (e zzC12Errs) Error() string { return strings.Join(e, "; ") }

// VerifC12_FailingFunctions: a registered function that reports a failure -
// its second result declared as error, as a pointer type or as a slice type
// implementing error - fails the render, which writes nothing, wherever the
// call sits; when the same function succeeds the document is delivered.
func VerifC12_FailingFunctions() {
	fails := zzBool("fails")
	funcs := FuncMap{
		"viaIface": func(v any) (string, error) {
			if fails {
				return "", &zzC12QuotaErr{1}
			}
			return "V", nil
		},
		"viaPtr": func(v any) (string, *zzC12QuotaErr) {
			if fails {
				return "", &zzC12QuotaErr{2}
			}
			return "V", nil
		},
		"viaSlice": func(v any) (string, zzC12Errs) {
			if fails {
				return "", zzC12Errs{"a", "b"}
			}
			return "V", nil
		},
	}
	fn := []string{"viaIface", "viaPtr", "viaSlice"}[zzChoice("fn", 3)]
	bodies := []string{
		`<h1>ok</h1><p>{{ title | FN }}</p>`,
		`<h1>ok</h1><p :title="title | FN">x</p>`,
		`<h1>ok</h1><ul><li v-for="(i, it) in items"><b v-if="i == 1">{{ it | FN }}</b></li></ul>`,
		`<h1>ok</h1><template include="cf.vuego"></template>`,
		`<h1>ok</h1><p v-text="title | FN"></p><p v-html="title | FN"></p>`,
		`<h1>ok</h1><p>{{ FN(title) }}</p>`,
	}
	body := strings.ReplaceAll(bodies[zzChoice("body", len(bodies))], "FN", fn)
	fsys := newZZFS(map[string]string{"cf.vuego": `<i>{{ title | ` + fn + ` }}</i>`})
	out, err := zzRenderVia(zzEntry(), fsys, []LoadOption{WithFuncs(funcs)}, body, zzC12Data())
	zzNote("template", body)
	zzNote("out", out)
	if err != nil {
		zzNote("err", err.Error())
	}
	if fails {
		zzAssert(err != nil, "C12.funcs.failure-not-reported")
		zzAssert(out == "", "C12.funcs.partial-output")
	} else {
		zzAssert(err == nil && strings.Contains(out, "V") && strings.Contains(out, "<h1>ok</h1>"), "C12.funcs.spurious-error")
	}
}
