package vuego

import "golang.org/x/net/html"

// VerifC01_AttrSinkBound: a bound attribute value reaches renderAttrs; the
// serialised attribute must contain exactly the two delimiting quotes.
func VerifC01_AttrSinkBound() {
	val := zzString("val", 4)
	out := renderAttrs([]html.Attribute{{Key: "title", Val: val}})
	zzNote("out", out)
	zzCover(len(val) == 4, "full-length value reaches the sink")
	zzAssert(zzCountByte(out, '"') == 2, "C01.attr.breakout")
}
