package vuego

import "sync/atomic"

// C09 — one engine serves concurrent renders without races (lock discipline).
//
// zzShared marks the objects that exist before the concurrent section,
// zzParallel(f) is the section: the engine executes f twice per path (cold
// and warm caches) and checks that every pair of conflicting accesses to a
// shared location holds a common lock; natively f runs in 8 goroutines under
// the race detector.

//verif:harness VerifC09_Locks race replayruns=40 poolreuse=lifo quick.maxpaths=20000 thorough.maxpaths=100000 timeout=2400 steps=40000000

func zzC09FS() *zzFS {
	fsys := newZZFS(map[string]string{
		"page.vuego":         "---\ntitle: T\nlayout: wrap\n---\n<template #side><nav>{{ title }}</nav></template><h1 v-once>{{ title }}</h1><ul><li v-for=\"(i, it) in items\" :class=\"{odd: i % 2 == 1}\">{{ it | upper }}</li></ul><template include=\"c.vuego\" :n=\"n\"></template>",
		"plain.vuego":        "<template :cnt=\"n + 1\" label=\"hit\"></template><p :title=\"a.b[0]\">{{ a.b[0] }} {{ n + 1 }}</p><template include=\"c.vuego\" :n=\"n\"><b>{{ n }}</b></template>",
		"c.vuego":            "---\nfm: F\n---\n<section><em v-once>{{ n }}{{ fm }}</em><slot>fb</slot></section>",
		"layouts/wrap.vuego": "<main><aside><slot name=\"side\">no side</slot><footer>F</footer></aside><div v-html=\"content\"></div><i>{{ title }}</i></main>",
	})
	fsys.mtime["page.vuego"] = 5
	fsys.mtime["plain.vuego"] = 5
	fsys.mtime["layouts/wrap.vuego"] = 5
	return fsys
}

// VerifC09_Locks: every entry point on a shared engine / base template with
// shared read-only data.
func VerifC09_Locks() {
	entry := zzChoice("entry", 7)
	warm := zzBool("warm")
	// the files' modification times change while renders are running:
	// 0 never, 1 before every render, 2 before every other render (the
	// renders in between find the refreshed entry in the cache)
	touch := zzChoice("touch", 3)
	failing := zzBool("failing") // failing requests are mixed in with the healthy ones
	fsys := zzC09FS()
	vue := NewVue(fsys)
	tpl := NewFS(fsys)
	data := map[string]any{"items": []string{"x", "y"}, "n": 1, "a": map[string]any{"b": []any{"deep"}}}
	render := func(vue *Vue, tpl Template) (string, error) {
		w := &zzWriter{limit: 1 << 20}
		var err error
		switch entry {
		case 0:
			err = vue.Render(w, "plain.vuego", data)
		case 1:
			err = vue.RenderFragment(w, "plain.vuego", data)
		case 2:
			err = tpl.Load("page.vuego").Fill(data).Render(contextBackground(), w)
		case 3:
			err = tpl.New().Fill(data).RenderFile(contextBackground(), w, "plain.vuego")
		case 4:
			err = tpl.New().Fill(data).RenderString(contextBackground(), w, `<p v-if="n == 1" :title="a.b[0]">{{ items[1] }}</p><template include="c.vuego" :n="n"></template>`)
		case 5:
			err = vue.Render(w, "page.vuego", data)
		case 6: // request-specific variables are assigned on top of the shared data
			err = tpl.New().Fill(data).Assign("user", "u1").RenderString(contextBackground(), w, `<p>{{ n }}:{{ user }}</p>`)
			if err == nil {
				err = tpl.Load("plain.vuego").Fill(data).Assign("user", "u2").Render(contextBackground(), w)
			}
		}
		return string(w.got), err
	}
	// the same call run alone on an engine of its own
	alone := zzC09FS()
	want, werr := render(NewVue(alone), NewFS(alone))
	zzAssert(werr == nil && len(want) > 0, "C09.alone.renders")
	zzNote("want", want)

	concurrent := false
	var calls atomic.Int64
	run := func() {
		n := calls.Add(1)
		if concurrent && (touch == 1 || (touch == 2 && n%2 == 1)) {
			fsys.gen.Add(1)
		}
		if failing && n%2 == 1 {
			// another request on the same engine fails half-way through a text run
			fw := &zzWriter{limit: 1 << 20}
			ferr := tpl.New().Fill(data).RenderString(contextBackground(), fw, `<p title="t-{{ n }}-{{ n | nosuchfilter }}">SECRET {{ n }} {{ n | nosuchfilter }}</p>`)
			zzAssert(ferr != nil && len(fw.got) == 0, "C09.crosstalk.failing-request")
		}
		got, err := render(vue, tpl)
		zzAssert(err == nil, "C09.crosstalk.render-error")
		zzAssert(got == want, "C09.crosstalk.bytes-differ-from-the-call-run-alone")
	}
	if warm {
		run() // caches filled before the concurrent section
	}
	concurrent = true
	calls.Store(0)
	zzShared("vue", vue)
	zzShared("tpl", tpl)
	zzShared("data", data)
	zzShared("fsys", fsys)
	zzParallel(run)
}
