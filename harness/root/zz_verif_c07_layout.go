package vuego

import (
	"strconv"
	"strings"
)

// C07 — layout chains nest innermost-first, apply the default only when due, and end.

//verif:harness VerifC07_Graph quick.maxpaths=60000 thorough.maxpaths=400000 timeout=3000 steps=60000000 depth=400
//verif:harness VerifC07_Limit quick.maxpaths=20000 thorough.maxpaths=100000 timeout=2400 steps=200000000
//verif:harness VerifC07_NoLayout quick.maxpaths=20000 thorough.maxpaths=100000 timeout=1800
//verif:harness VerifC07_FilesChange quick.maxpaths=20000 thorough.maxpaths=100000 timeout=1800
//verif:harness VerifC07_Spelling quick.maxpaths=20000 thorough.maxpaths=100000 timeout=1800 steps=40000000

// layout files of the universe; every layout prints a marker, the previous
// result (content), a page front-matter key (pk) and a Fill key (fk).
var zzC07Layouts = []string{"a.vuego", "layouts/a.vuego", "layouts/b.vuego", "layouts/base.vuego", "dir/a.vuego"}

// values the `layout` key of a file may take
// ("b" comes last: the quick tier leaves it out, it differs from "a" by name only)
var zzC07LayoutVals = []string{"", "a", "a.vuego", "base", "missing", "../p", "b"}

func zzC07Marker(file string) string {
	return strings.ReplaceAll(strings.ReplaceAll(file, "/", "_"), ".vuego", "")
}

func zzC07File(file, layout string, ownKeys bool) string {
	m := zzC07Marker(file)
	fm := ""
	if layout != "" || ownKeys {
		fm = "---\n"
		if layout != "" {
			fm += "layout: " + layout + "\n"
		}
		if ownKeys {
			// a layout's own front-matter wins inside that layout only
			fm += "pk: OWN-" + m + "\nfk: OWNF-" + m + "\n"
		}
		fm += "---\n"
	}
	return fm + `<div class="` + m + `"><span v-html="content"></span><u>` + m + `:{{ pk }}:{{ fk }}</u></div>`
}

func zzDir(p string) string {
	if k := strings.LastIndex(p, "/"); k >= 0 {
		return p[:k]
	}
	return "."
}

func zzJoin(dir, name string) string {
	// "x/../y" is "y"; "../y" from the top level stays as it is (outside the universe)
	for strings.HasPrefix(name, "../") && dir != "." && dir != "" {
		name = name[3:]
		dir = zzDir(dir)
	}
	if dir == "." || dir == "" {
		return name
	}
	return dir + "/" + name
}

// VerifC07_Graph: all layout graphs over the file universe. The graph is
// generated along the chain: a file's existence, layout value and own keys
// are chosen when the file first becomes a candidate of a resolution step
// (all candidates of a step are decided, in whichever order they are tried),
// so that every reachable structure is explored once and files that no
// resolution can consult do not multiply the paths.
func VerifC07_Graph() {
	files := map[string]string{}
	layoutOf := map[string]string{}
	ownKeys := map[string]bool{}
	nfiles := zzBound("layoutfiles", 4, 5)
	nvals := zzBound("layoutvalues", 6, 7)
	universe := map[string]bool{}
	for _, f := range zzC07Layouts[:nfiles] {
		universe[f] = true
	}
	// the page lives at top level or in dir/
	// the page lives at top level or in dir/
	page := []string{"p.vuego", "dir/p.vuego"}[zzChoice("pagedir", 2)]
	pl := zzC07LayoutVals[zzChoice("pagelayout", nvals)]
	layoutOf[page] = pl
	fm := "---\npk: PK\n"
	if pl != "" {
		fm += "layout: " + pl + "\n"
	}
	fm += "---\n"
	files[page] = fm + `<p class="PG">PAGE:{{ pk }}:{{ fk }}</p>`

	decided := map[string]bool{}
	exists := func(p string) bool {
		if p == page {
			return true
		}
		if !universe[p] {
			return false
		}
		if e, ok := decided[p]; ok {
			return e
		}
		e := false
		if zzBool("exists") { // decided once; a plain bool from here on
			e = true
		}
		decided[p] = e
		if e {
			l := zzC07LayoutVals[zzChoice("layout", nvals)]
			own := zzBool("ownkeys")
			layoutOf[p] = l
			ownKeys[p] = own
			files[p] = zzC07File(p, l, own)
		}
		return e
	}
	// the default layout is a candidate of every render
	exists("layouts/base.vuego")

	// reference: follow the chain as the statement describes
	resolve := func(layout, current string) string {
		dir := zzDir(current)
		// decide every candidate of this step before choosing
		c1 := strings.HasSuffix(layout, ".vuego") && exists(zzJoin(dir, layout))
		c2 := exists(zzJoin(dir, layout+".vuego"))
		exists("layouts/" + layout + ".vuego")
		if c1 {
			return zzJoin(dir, layout)
		}
		if c2 {
			return zzJoin(dir, layout+".vuego")
		}
		return "layouts/" + layout + ".vuego"
	}
	chain := []string{page}
	wantErr := false
	cur := page
	first := true
	for steps := 0; ; steps++ {
		if steps > 100 {
			wantErr = true // does not end
			break
		}
		l := layoutOf[cur]
		if l == "" {
			if first && exists("layouts/base.vuego") {
				cur = "layouts/base.vuego"
				chain = append(chain, cur)
				first = false
				continue
			}
			break
		}
		first = false
		next := resolve(l, cur)
		if !exists(next) {
			wantErr = true
			break
		}
		cur = next
		chain = append(chain, cur)
	}
	fsys := newZZFS(files)

	var sb strings.Builder
	w := &zzWriter{limit: 1 << 20}
	_ = sb
	// the data given to Fill: a map, or nothing at all
	fk := "FK"
	var err error
	if zzBool("fillnil") {
		fk = ""
		err = NewFS(fsys).Load(page).Fill(nil).Render(contextBackground(), w)
	} else {
		err = NewFS(fsys).Fill(map[string]any{"fk": "FK"}).RenderFile(contextBackground(), w, page)
	}
	out := string(w.got)
	zzNote("chain", strings.Join(chain, " > "))
	zzNote("out", out)
	if err != nil {
		zzNote("err", err.Error())
	}
	if wantErr {
		zzAssert(err != nil, "C07.graph.unending-or-missing-must-fail")
		zzAssert(out == "", "C07.graph.error-wrote-output")
		return
	}
	zzAssert(err == nil, "C07.graph.spurious-error")
	// markers in output order must be the chain outermost-first, page last
	var got []string
	for p := 0; p < len(out); p++ {
		if strings.HasPrefix(out[p:], `class="`) {
			q := strings.IndexByte(out[p+7:], '"')
			got = append(got, out[p+7:p+7+q])
		}
	}
	// a layout prints its marker around the previous result; the page prints
	// its own text only, so what is visible is the chain from the outermost
	// file inwards up to the first rendering of the page met on the way
	var want []string
	for i := len(chain) - 1; i >= 0; i-- {
		if chain[i] == page {
			want = append(want, "PG")
			break
		}
		want = append(want, zzC07Marker(chain[i]))
	}
	zzNote("want", strings.Join(want, ","))
	zzNote("got", strings.Join(got, ","))
	zzAssert(strings.Join(got, ",") == strings.Join(want, ","), "C07.graph.nesting-order")
	zzAssert(strings.Count(out, "PAGE:PK:"+fk) == 1, "C07.graph.page-rendered-once")
	// page front-matter and Fill data visible in every layout of the chain
	lastPage := 0
	for i := range chain {
		if chain[i] == page {
			lastPage = i
		}
	}
	for i := lastPage + 1; i < len(chain); i++ {
		m := zzC07Marker(chain[i])
		if ownKeys[chain[i]] {
			zzAssert(strings.Contains(out, m+":OWN-"+m+":OWNF-"+m), "C07.graph.layout-front-matter-wins-inside-the-layout")
		} else {
			zzAssert(strings.Contains(out, m+":PK:"+fk+"<"), "C07.graph.page-data-visible-in-layout")
		}
	}
}

// VerifC07_NoLayout: every way of spelling "this file names no layout" - no
// key, an empty key, a null key, a nil value given to Fill - in the page and
// in a layout of the chain behaves like the absent key: the default base
// layout is applied to such a page when it exists, and the chain ends at such
// a layout.
func VerifC07_NoLayout() {
	spell := func(k int) string {
		return []string{"", "layout:\n", "layout: ~\n", "layout: null\n", "layout: \"\"\n"}[k]
	}
	pageForm := zzChoice("page", 6) // 5 = names layout "a"
	layoutForm := zzChoice("a", 5)
	base := zzBool("base")
	fillNil := zzBool("fillnil")
	files := map[string]string{}
	pfm := "pk: PK\n"
	if pageForm == 5 {
		pfm += "layout: a\n"
	} else {
		pfm += spell(pageForm)
	}
	files["p.vuego"] = "---\n" + pfm + "---\n<p>PAGE</p>"
	files["layouts/a.vuego"] = "---\nak: AK\n" + spell(layoutForm) + "---\n<div class=\"a\"><span v-html=\"content\"></span></div>"
	if base {
		files["layouts/base.vuego"] = "<div class=\"base\"><span v-html=\"content\"></span></div>"
	}
	data := map[string]any{"fk": "FK"}
	if fillNil && pageForm != 5 {
		data["layout"] = nil
	}
	out, err := zzRenderFile(newZZFS(files), "p.vuego", data)
	zzNote("page", files["p.vuego"])
	zzNote("out", out)
	if err != nil {
		zzNote("err", err.Error())
	}
	zzAssert(err == nil, "C07.nolayout.spurious-error")
	zzAssert(strings.Count(out, "PAGE") == 1, "C07.nolayout.page-rendered-once")
	wantA := pageForm == 5
	wantBase := pageForm != 5 && base
	zzAssert(strings.Contains(out, `class="a"`) == wantA, "C07.nolayout.named-layout")
	zzAssert(strings.Contains(out, `class="base"`) == wantBase, "C07.nolayout.base-iff-page-names-none")
}

// VerifC07_FilesChange: which layout applies is decided by the files that
// exist at the time of the render: after a layout file appears or disappears
// a long-lived engine resolves the chain like a fresh engine does (relative
// before layouts/, base only when it exists).
func VerifC07_FilesChange() {
	names := []string{"pages/main.vuego", "layouts/main.vuego", "layouts/base.vuego"}
	files := map[string]string{}
	named := zzBool("pagenameslayout")
	if named {
		files["pages/p.vuego"] = "---\nlayout: main\n---\n<p>PAGE</p>"
	} else {
		files["pages/p.vuego"] = "<p>PAGE</p>"
	}
	layout := func(n string) string {
		return `<div class="` + zzC07Marker(n) + `"><span v-html="content"></span></div>`
	}
	for _, n := range names {
		if zzBool("exists") {
			files[n] = layout(n)
		}
	}
	fsys := newZZFS(files)
	for n := range files {
		fsys.mtime[n] = 3
	}
	long := NewFS(fsys)
	render := func(t Template) (string, bool) {
		w := &zzWriter{limit: 1 << 20}
		err := t.RenderFile(contextBackground(), w, "pages/p.vuego")
		return string(w.got), err != nil
	}
	steps := zzBound("changes", 1, 2)
	_, _ = render(long)
	for s := 0; s < steps; s++ {
		// one layout file appears or disappears
		n := names[zzChoice("file", len(names))]
		if _, ok := fsys.files[n]; ok {
			delete(fsys.files, n)
		} else {
			fsys.files[n] = layout(n)
			fsys.mtime[n] = int64(4 + s)
		}
		got, gotFailed := render(long)
		want, wantFailed := render(NewFS(fsys))
		zzNote("changed", n)
		zzNote("want", want)
		zzNote("got", got)
		zzAssert(gotFailed == wantFailed, "C07.fileschange.error-differs-from-fresh-engine")
		if !wantFailed {
			zzAssert(got == want, "C07.fileschange.chain-differs-from-fresh-engine")
		}
	}
}

// VerifC07_Limit: acyclic chains around the documented maximum of 100
// templates, entered through a named first layout or through the default
// base: the render succeeds up to the maximum and is an error (that writes
// nothing) beyond it.
func VerifC07_Limit() {
	templates := []int{99, 100, 101, 102}[zzChoice("templates", zzBound("lengths", 4, 4))] // page included
	viaBase := zzBool("viabase")
	files := map[string]string{}
	layoutName := func(k int) string { return "l" + strconv.Itoa(k) }
	// layouts l1 .. l(templates-1); l1 is layouts/base.vuego when the chain is entered through the default
	for k := 1; k < templates; k++ {
		fm := ""
		if k+1 < templates {
			fm = "---\nlayout: " + layoutName(k+1) + "\n---\n"
		}
		body := fm + `<i>` + strconv.Itoa(k) + `</i><span v-html="content"></span>`
		if k == 1 && viaBase {
			files["layouts/base.vuego"] = body
		} else {
			files["layouts/"+layoutName(k)+".vuego"] = body
		}
	}
	if viaBase {
		files["p.vuego"] = "<p>PAGE</p>"
	} else {
		files["p.vuego"] = "---\nlayout: l1\n---\n<p>PAGE</p>"
	}
	out, err := zzRenderFile(newZZFS(files), "p.vuego", map[string]any{})
	zzNote("templates", templates)
	zzNote("outlen", len(out))
	if err != nil {
		zzNote("err", err.Error()[:zzMinInt(len(err.Error()), 120)])
	}
	if templates > 100 {
		zzAssert(err != nil, "C07.limit.chain-beyond-the-maximum-must-fail")
		zzAssert(out == "", "C07.limit.error-wrote-output")
	} else {
		zzAssert(err == nil, "C07.limit.chain-within-the-maximum-renders")
		zzAssert(strings.Count(out, "PAGE") == 1 && strings.Contains(out, "<i>"+strconv.Itoa(templates-1)+"</i>"), "C07.limit.all-layouts-applied")
	}
}

func zzMinInt(a, b int) int {
	if a < b {
		return a
	}
	return b
}

// VerifC07_Spelling: the chain page -> layouts/a -> layouts/base is applied
// however the front-matter blocks of the page and of the layout are spelled:
// line endings, blanks after the closing line, quoting of the layout name.
func VerifC07_Spelling() {
	eols := []string{"\n", "\r\n"}
	closings := []string{"---", "--- ", "---\t"}
	names := []string{"a", `"a"`, `'a'`}
	peol := eols[zzChoice("pageEol", 2)]
	pclose := closings[zzChoice("pageClosing", 3)]
	leol := eols[zzChoice("layoutEol", 2)]
	lclose := closings[zzChoice("layoutClosing", 3)]
	name := names[zzChoice("name", 3)]
	files := map[string]string{
		"p.vuego":            "---" + peol + "pk: PV" + peol + "layout: " + name + peol + pclose + peol + "<p>PG {{ pk }}</p>",
		"layouts/a.vuego":    "---" + leol + "layout: base" + leol + "ak: AV" + leol + lclose + leol + `<div class="a"><span v-html="content"></span><u>{{ pk }}</u></div>`,
		"layouts/base.vuego": `<div class="base"><span v-html="content"></span><u>{{ pk }}</u></div>`,
	}
	var out string
	var err error
	if zzBool("viaLoad") {
		var sb strings.Builder
		err = NewFS(newZZFS(files)).Load("p.vuego").Render(contextBackground(), &sb)
		out = sb.String()
	} else {
		out, err = zzRenderFile(newZZFS(files), "p.vuego", map[string]any{})
	}
	zzNote("page", files["p.vuego"])
	zzNote("layout", files["layouts/a.vuego"])
	zzNote("out", out)
	zzAssert(err == nil, "C07.spelling.spurious-error")
	want := `<div class="base"><span><div class="a"><span><p>PG PV</p></span><u>PV</u></div></span><u>PV</u></div>`
	zzAssert(zzSquash(out) == zzSquash(want), "C07.spelling.chain-applied")
}
