package vuego

import (
	"strconv"
)

// C15 — a long-lived engine renders what a fresh engine would after any file edits.

//verif:harness VerifC15_Bare quick.maxpaths=20000 thorough.maxpaths=100000 timeout=1800
//verif:harness VerifC15_History quick.maxpaths=60000 thorough.maxpaths=400000 timeout=3000 steps=30000000

func zzC15Page(v int) string { return zzC15PageParts(v, v, true) }

// front-matter version, body version, front-matter present at all
func zzC15PageParts(fmv, bodyv int, hasTitle bool) string {
	fm := "---\n"
	if hasTitle {
		fm += "title: t" + strconv.Itoa(fmv) + "\n"
	}
	// two more keys whose Go type changes from one version to the next
	if fmv%2 == 0 {
		fm += "kind: 2\nwant: 2\n"
	} else {
		fm += "kind: done\nwant: done\n"
	}
	fm += "layout: wrap\n---\n"
	return fm + "<i v-if=\"kind == want\">match {{ kind }}</i><i v-else>mismatch</i><p>{{ title }} body" + strconv.Itoa(bodyv) + "</p><s style=\"color:red\" v-show=\"vis\" v-text=\"msg\"></s><template include=\"c.vuego\"></template>"
}
func zzC15Layout(v int) string {
	return "---\nlk: l" + strconv.Itoa(v) + "\n---\n<main class=\"L" + strconv.Itoa(v) + "\"><span v-html=\"content\"></span>{{ lk }}</main>"
}
func zzC15Comp(v int) string { return "<em>comp" + strconv.Itoa(v) + "</em>" }

// VerifC15_History: after every step of a history of edits (modification
// times advancing, going back or becoming zero), deletions and re-creations,
// the long-lived engine and a fresh engine agree.
func VerifC15_History() {
	L := zzBound("L", 2, 3)
	fsys := newZZFS(map[string]string{
		"pages/page.vuego":   zzC15Page(0),
		"layouts/wrap.vuego": zzC15Layout(0),
		"c.vuego":            zzC15Comp(0),
		// a layout of the same name next to the page: it wins while it exists
		"pages/wrap.vuego": "<main class=\"REL\"><span v-html=\"content\"></span></main>",
	})
	fsys.mtime["pages/page.vuego"] = 2
	fsys.mtime["layouts/wrap.vuego"] = 2
	fsys.mtime["c.vuego"] = 2
	fsys.mtime["pages/wrap.vuego"] = 2
	long := NewFS(fsys)
	// the request data differs from render to render; the files decide the rest
	nodata := zzBool("nodata") // the engine is used as it is, without request data
	vis := false
	if !nodata {
		vis = zzBool("vis")
	}
	render := func(t Template) (string, bool) {
		w := &zzWriter{limit: 1 << 20}
		var err error
		if nodata {
			err = t.Load("pages/page.vuego").Render(contextBackground(), w)
		} else {
			err = t.New().Fill(map[string]any{"vis": vis, "msg": "M"}).RenderFile(contextBackground(), w, "pages/page.vuego")
		}
		return string(w.got), err != nil
	}
	out0, failed0 := render(long) // warm the cache
	zzAssert(!failed0 && out0 != "", "C15.history.initial-render")
	version := 0
	fmv, bodyv := 0, 0
	loadedMtime := map[string]int64{"pages/page.vuego": 2, "layouts/wrap.vuego": 2, "pages/wrap.vuego": 2}
	for step := 0; step < L; step++ {
		version++
		switch zzChoice("op", 8) {
		case 7: // the page is saved in a broken state (its front-matter does not parse, or its body calls an unknown filter)
			if _, ok := fsys.files["pages/page.vuego"]; !ok {
				break
			}
			if zzBool("badyaml") {
				fsys.files["pages/page.vuego"] = "---\ntitle: [unclosed\nlayout: wrap\n---\n<p>broken</p>"
			} else {
				fsys.files["pages/page.vuego"] = "---\ntitle: t\nlayout: wrap\n---\n<p>{{ title | nosuchfilter }}</p>"
			}
			fsys.mtime["pages/page.vuego"] = int64(30 + version)
		case 6: // the layout file disappears, or comes back with a later modification time
			name := "layouts/wrap.vuego"
			if zzBool("relative") {
				name = "pages/wrap.vuego"
			}
			if _, ok := fsys.files[name]; ok {
				delete(fsys.files, name)
			} else {
				fsys.files[name] = zzC15Layout(version)
				fsys.mtime[name] = int64(20 + version)
			}
		case 5: // nothing changes on disk
		case 0, 1: // edit the page / the layout with an arbitrary new modification time
			name := "pages/page.vuego"
			// what the edit touches: everything, the front-matter only, the body only, or it removes the title
			hasTitle := true
			switch zzChoice("touch", 4) {
			case 0:
				fmv, bodyv = version, version
			case 1:
				fmv = version
			case 2:
				bodyv = version
			case 3:
				hasTitle = false
				fmv = version
			}
			content := zzC15PageParts(fmv, bodyv, hasTitle)
			if zzBool("layout") {
				name = "layouts/wrap.vuego"
				content = zzC15Layout(version)
			}
			if _, ok := fsys.files[name]; !ok {
				break
			}
			newT := int64(zzInt("mtime", 0, 4))
			zzAssume(newT != fsys.mtime[name]) // equal-mtime edits are outside the claim
			// ... and so is an edit that brings the modification time back to
			// that of the version the cache last loaded successfully (the
			// cache cannot tell the two apart; a broken version in between is
			// never loaded into it)
			zzAssume(newT != loadedMtime[name])
			fsys.files[name] = content
			fsys.mtime[name] = newT
		case 2: // delete the page
			delete(fsys.files, "pages/page.vuego")
		case 3: // (re)create the page with a later modification time than ever used
			fmv, bodyv = version, version
			fsys.files["pages/page.vuego"] = zzC15Page(version)
			fsys.mtime["pages/page.vuego"] = int64(10 + version)
		case 4: // edit the component (not cached)
			fsys.files["c.vuego"] = zzC15Comp(version)
		}
		if !nodata {
			vis = zzBool("vis")
		}
		got, gotFailed := render(long)
		want, wantFailed := render(NewFS(fsys))
		if !wantFailed {
			for _, n := range []string{"pages/page.vuego", "layouts/wrap.vuego", "pages/wrap.vuego"} {
				if _, ok := fsys.files[n]; ok {
					loadedMtime[n] = fsys.mtime[n]
				}
			}
		}
		zzNote("want", want)
		zzNote("got", got)
		zzAssert(gotFailed == wantFailed, "C15.history.error-differs-from-fresh-engine")
		if !wantFailed {
			zzAssert(got == want, "C15.history.stale-output")
		}
	}
}

// VerifC15_Bare: the engine's own entry point, called without data, on a page
// that assigns to its front-matter keys at top level: answering from the
// cache equals re-reading, render after render, and an edit shows.
func VerifC15_Bare() {
	L := zzBound("LB", 2, 3)
	page := func(v int) string {
		// an expression whose text changes, from one version to the next,
		// by the blanks inside a string literal only
		lit := "' '"
		if (v/10)%2 == 1 {
			lit = "'  '"
		}
		return "---\nstep: " + strconv.Itoa(v) + "\ntitle: first\n---\n<b v-if=\"'a' + " + lit + " == 'a '\">narrow</b><u>{{ 'r' + " + lit + " + 'v' }}</u><template :step=\"step + 1\" title=\"seen\"></template><h1>{{ title }} {{ step }}</h1><ul><li v-for=\"i in xs\"><template :step=\"step + 1\"></template>{{ step }}</li></ul>"
	}
	fsys := newZZFS(map[string]string{"page.vuego": page(0)})
	fsys.mtime["page.vuego"] = 2
	long := NewVue(fsys)
	fragment := zzBool("fragment")
	render := func(v *Vue) (string, bool) {
		w := &zzWriter{limit: 1 << 20}
		var err error
		if fragment {
			err = v.RenderFragment(w, "page.vuego", nil)
		} else {
			err = v.Render(w, "page.vuego", nil)
		}
		return string(w.got), err != nil
	}
	for step := 0; step < L; step++ {
		if zzBool("edit") {
			fsys.files["page.vuego"] = page(10 * (step + 1))
			fsys.mtime["page.vuego"] = int64(3 + step)
		}
		got, gotFailed := render(long)
		want, wantFailed := render(NewVue(fsys))
		zzNote("want", want)
		zzNote("got", got)
		zzAssert(gotFailed == wantFailed, "C15.bare.error-differs-from-fresh-engine")
		zzAssert(got == want, "C15.bare.stale-output")
	}
}
