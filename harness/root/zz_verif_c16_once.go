package vuego

import (
	"strings"
)

// C16 — v-once emits each marked element exactly once per render, independently.

//verif:harness VerifC16_Once quick.maxpaths=20000 thorough.maxpaths=100000 timeout=1800 steps=20000000

var zzC16Pages = []string{
	/* 0 */ `<ul><li v-for="i in items"><b v-once>AAA</b>{{ i }}</li></ul>`,
	/* 1 */ `<i v-once>AAA</i><u v-once>BBB</u>`,
	/* 2 */ `<div><template include="c.vuego"></template><template include="c.vuego"></template><template include="d.vuego"></template><template include="c.vuego"></template></div>`,
	/* 3 */ `<ul><li v-for="i in items" v-once>AAA</li></ul>`,
	/* 4 */ `<div><p v-for="i in items"><template include="c.vuego"></template></p><s v-once>BBB</s></div>`,
	/* 5 */ `<div><b v-once>AAA</b><span v-for="i in items"><u v-once>BBB</u></span><template include="d.vuego"></template></div>`,
	/* 6 */ `<ul><li v-for="i in items"><b v-once EXTRA>AAA</b></li></ul><p v-for="i in items"><template include="e.vuego"></template></p>`,
	/* 7 */ `<div v-for="i in items"><template v-once EXTRA><script src="AAA"></script><i>EEE</i></template></div>`,
	// the same component reached through different inclusion chains: directly,
	// through another component, and as slot content of another component
	/* 8 */ `<div><template include="d.vuego"></template><template include="wrapd.vuego"></template></div>`,
	/* 9 */ `<div><template include="d.vuego"></template><template include="slotc.vuego"><template include="d.vuego"></template></template></div>`,
	// v-once elements nested inside v-once elements are elements of their own
	/* 10 */ `<section v-once><b v-once>AAA</b><i v-once>BBB</i></section><aside v-once><u v-once>EEE</u></aside>`,
	// a marked element that is a branch: the v-else of a loop, a later branch
	// of a chain; the surrounding markup is instantiated once per group / kind
	/* 11 */ `<section v-for="g in groups"><li v-for="x in g">{{ x }}</li><p v-else v-once>AAA</p></section>`,
	/* 12 */ `<div v-for="k in kinds"><p v-if="k == 1">one</p><p v-else-if="k == 2" v-once>BBB</p><p v-else v-once>AAA</p></div>`,
	/* 14 is appended below */
	/* 13 */ `<div v-for="k in kinds"><p v-if="k == 2" v-once>BBB</p><p v-else-if="k == 3" v-once>AAA</p><i v-else>one</i></div>`,
	// attribute names are case-insensitive in HTML: V-Once is v-once
	/* 14 */ `<div><template include="caps.vuego"></template><p V-Once>EEE</p><template include="caps.vuego"></template><template include="d.vuego"></template></div>`,
}

// expected number of occurrences of each marker
var zzC16Want = []map[string]int{
	{"AAA": 1},
	{"AAA": 1, "BBB": 1},
	{"CCC": 1, "DDD": 1},
	{"AAA": 1},
	{"CCC": 1, "BBB": 1},
	{"AAA": 1, "BBB": 1, "DDD": 1},
	{"AAA": 1, "EEE": 1},
	{"AAA": 1, "EEE": 1},
	{"DDD": 1, "WWW": 1},
	{"DDD": 1, "SSS": 1},
	{"AAA": 1, "BBB": 1, "EEE": 1},
	nil, // 11 to 13: computed from the data
	nil,
	nil,
	{"AAA": 1, "BBB": 1, "EEE": 1, "DDD": 1},
}

// other directives the marked element may carry
var zzC16Extras = []string{"", "v-pre", `v-if="yes"`, `:title="t"`, `v-show="yes"`, `class="x"`}

func zzC16FS(extra string) *zzFS {
	files := map[string]string{
		"c.vuego":     `<em v-once>CCC</em><q>c</q>`,
		"d.vuego":     `<s v-once>DDD</s>`,
		"e.vuego":     `<s v-once EXTRA>EEE</s>`,
		"caps.vuego":  `<section><style V-Once>.AAA{}</style><b V-ONCE>BBB</b></section>`,
		"wrapd.vuego": `<section>WWW<template include="d.vuego"></template></section>`,
		"slotc.vuego": `<section>SSS<slot></slot></section>`,
	}
	for i, p := range zzC16Pages {
		files["p"+string(rune('a'+i))+".vuego"] = strings.ReplaceAll(p, "EXTRA", extra)
	}
	files["e.vuego"] = strings.ReplaceAll(files["e.vuego"], "EXTRA", extra)
	return newZZFS(files)
}

// VerifC16_Once: every placement x entry point x two consecutive renders.
func VerifC16_Once() {
	k := zzChoice("page", len(zzC16Pages))
	entry := zzChoice("entry", 3)
	extra := ""
	if k >= 6 {
		extra = zzC16Extras[zzChoice("extra", len(zzC16Extras))]
	}
	fsys := zzC16FS(extra)
	data := map[string]any{"items": []int{1, 2, 3}, "yes": true, "t": "T"}
	want := zzC16Want[k]
	if k >= 11 && k <= 13 {
		// which instantiations select the marked branch is arbitrary
		want = map[string]int{"AAA": 0, "BBB": 0}
		var groups, kinds []any
		for g := 0; g < 3; g++ {
			kind := 1 + zzChoice("kind", 3)
			kinds = append(kinds, kind)
			if kind == 3 {
				groups = append(groups, []any{})
				want["AAA"] = 1
			} else {
				groups = append(groups, []any{"x"})
			}
			if kind == 2 && k >= 12 {
				want["BBB"] = 1
			}
		}
		data["groups"], data["kinds"] = groups, kinds
	}
	tpl := NewFS(fsys).Fill(data)
	name := "p" + string(rune('a'+k)) + ".vuego"
	render := func() (string, error) {
		w := &zzWriter{limit: 1 << 20}
		var err error
		switch entry {
		case 0:
			err = tpl.RenderFile(contextBackground(), w, name)
		case 1:
			err = tpl.RenderString(contextBackground(), w, strings.ReplaceAll(zzC16Pages[k], "EXTRA", extra))
		default:
			vue := NewVue(fsys)
			err = vue.RenderFragment(w, name, data)
		}
		return string(w.got), err
	}
	out1, err1 := render()
	out2, err2 := render()
	zzNote("page", zzC16Pages[k])
	zzNote("out", out1)
	zzAssert(err1 == nil && err2 == nil, "C16.once.render-error")
	for m, n := range want {
		zzAssert(strings.Count(out1, m) == n, "C16.once.emitted-exactly-once")
	}
	zzAssert(out1 == out2, "C16.once.second-render-differs")
}
