package vuego

import (
	"errors"
	stdhtml "html"
	"strconv"
	"strings"

	"golang.org/x/net/html"
)

// C13 — an expression means the same everywhere; pipes compose left to right.

//verif:harness VerifC13_Positions quick.maxpaths=100000 thorough.maxpaths=600000 timeout=3000
//verif:harness VerifC13_NilOperands quick.maxpaths=20000 thorough.maxpaths=100000 timeout=1800
//verif:harness VerifC13_MixedTypes quick.maxpaths=20000 thorough.maxpaths=100000 timeout=1800
//verif:harness VerifC13_Literals quick.maxpaths=60000 thorough.maxpaths=300000 timeout=2400
//verif:harness VerifC13_Pipes quick.maxpaths=60000 thorough.maxpaths=300000 timeout=2400
//verif:harness VerifC13_Errors quick.maxpaths=20000 thorough.maxpaths=100000 timeout=1800

type zzOperand struct {
	src   string
	num   int // numeric value (when isNum)
	str   string
	isNum bool
}

var zzC13Operands = []zzOperand{
	{src: "a", num: 3, isNum: true},
	{src: "b", num: 4, isNum: true},
	{src: "m.k", num: 5, isNum: true},
	{src: "xs[0]", num: 9, isNum: true},
	{src: "2", num: 2, isNum: true},
	{src: "s", str: "x"},
	{src: "'x'", str: "x"},
	// white space inside a string is part of the string
	{src: "w", str: "p  q"},
	{src: "'p  q'", str: "p  q"},
	{src: "m[ 'k' ]", num: 5, isNum: true},
}

var zzC13Ops = []string{"==", "!=", "<", ">", "<=", ">=", "+", "-", "*", "&&", "||", "===", "!=="}

func zzC13Env() map[string]any {
	return map[string]any{"a": 3, "b": 4, "s": "x", "w": "p  q", "t": true, "f": false, "m": map[string]any{"k": 5}, "xs": []int{9, 8}}
}

// VerifC13_Positions: documented expressions (comparison, logical, arithmetic,
// ternary, with and without blanks around the operator) give the
// conventional value in {{ }}, bound attributes, v-if, v-else-if and v-show.
func VerifC13_Positions() {
	form := zzChoice("form", 4) // 0 binary, 1 negation, 2 ternary, 3 plain path
	spaced := zzBool("spaced")
	sp := ""
	if spaced {
		sp = " "
	}
	var expr, want string
	wantBool, isBool := false, false
	switch form {
	case 0:
		l := zzC13Operands[zzChoice("l", len(zzC13Operands))]
		r := zzC13Operands[zzChoice("r", len(zzC13Operands))]
		op := zzC13Ops[zzChoice("op", len(zzC13Ops))]
		expr = l.src + sp + op + sp + r.src
		lLit := l.src == "2" || l.src[0] == '\''
		rLit := r.src == "2" || r.src[0] == '\''
		if lLit && rLit && l.isNum != r.isNum {
			return // comparing two literals of different kinds is rejected by the compiler; not a documented form
		}
		if !spaced && (op == "<" || op == "<=") && (r.src[0] >= 'a' && r.src[0] <= 'z') {
			return // "a<b" is not parser-stable template text (it opens a tag)
		}
		switch op {
		case "==", "===", "!=", "!==":
			eq := l.isNum == r.isNum && ((l.isNum && l.num == r.num) || (!l.isNum && l.str == r.str))
			isBool, wantBool = true, eq == (op == "==" || op == "===")
		case "<", ">", "<=", ">=":
			if !l.isNum || !r.isNum {
				return
			}
			isBool = true
			switch op {
			case "<":
				wantBool = l.num < r.num
			case ">":
				wantBool = l.num > r.num
			case "<=":
				wantBool = l.num <= r.num
			case ">=":
				wantBool = l.num >= r.num
			}
		case "+", "-", "*":
			if !l.isNum || !r.isNum {
				return
			}
			switch op {
			case "+":
				want = strconv.Itoa(l.num + r.num)
			case "-":
				want = strconv.Itoa(l.num - r.num)
			case "*":
				want = strconv.Itoa(l.num * r.num)
			}
		case "&&", "||":
			lb := []string{"t", "f"}[zzChoice("lb", 2)]
			rb := []string{"t", "f"}[zzChoice("rb", 2)]
			expr = lb + sp + op + sp + rb
			isBool = true
			if op == "&&" {
				wantBool = lb == "t" && rb == "t"
			} else {
				wantBool = lb == "t" || rb == "t"
			}
		}
	case 1:
		v := []string{"t", "f"}[zzChoice("neg", 2)]
		expr = "!" + sp + v
		isBool, wantBool = true, v == "f"
	case 2:
		c := []string{"t", "f", "a" + sp + ">" + sp + "b"}[zzChoice("cond", 3)]
		expr = c + sp + "?" + sp + "'yes'" + sp + ":" + sp + "'no'"
		want = "yes"
		if c != "t" {
			want = "no"
		}
	case 3:
		o := zzC13Operands[[]int{0, 1, 2, 3, 4, 5, 7, 9}[zzChoice("l", 8)]]
		expr = o.src
		if o.isNum {
			want = strconv.Itoa(o.num)
		} else {
			want = o.str
		}
	}
	if isBool {
		want = strconv.FormatBool(wantBool)
	}
	// every position that accepts an expression
	body := `<p>[{{ ` + expr + ` }}]</p>` +
		`<a :data-v="` + expr + `">A</a>`
	if isBool {
		body += `<i v-if="` + expr + `">IF</i><i v-else>ELSE</i>` +
			`<u v-if="f">x</u><u v-else-if="` + expr + `">ELIF</u><u v-else>ELSE2</u>` +
			`<s v-show="` + expr + `">S</s>`
	} else {
		lit := want
		if _, err := strconv.Atoi(want); err != nil {
			lit = "'" + want + "'"
		}
		body += `<i v-if="(` + expr + `) == ` + lit + `">IF</i><i v-else>ELSE</i>`
	}
	out, err := zzRenderVia(zzEntry(), nil, nil, body, zzC13Env())
	zzNote("expr", expr)
	zzNote("want", want)
	zzNote("out", out)
	if err != nil {
		zzNote("err", err.Error())
	}
	zzAssert(err == nil, "C13.pos.render-error")
	zzAssert(strings.Contains(out, "["+want+"]"), "C13.pos.interpolation")
	if isBool {
		zzAssert(strings.Contains(out, `data-v="true"`) == wantBool, "C13.pos.bound-attribute")
		zzAssert(strings.Contains(out, ">IF<") == wantBool, "C13.pos.v-if")
		zzAssert(strings.Contains(out, ">ELIF<") == wantBool, "C13.pos.v-else-if")
		zzAssert(strings.Contains(out, "display:none") == !wantBool, "C13.pos.v-show")
	} else {
		if want != "0" {
			zzAssert(strings.Contains(out, `data-v="`+want+`"`), "C13.pos.bound-attribute")
		} else {
			zzAssert(!strings.Contains(out, `data-v=`), "C13.pos.bound-attribute") // falsy omits
		}
		zzAssert(strings.Contains(out, ">IF<"), "C13.pos.v-if")
	}
}

// ---- pipes ---------------------------------------------------------------------------

// VerifC13_Pipes: x | f | g(a) applies the registered functions left to right
// with the piped value first and arguments converted to the parameter types.
func VerifC13_Pipes() {
	var log []string
	funcs := FuncMap{
		"add": func(n int, m int) int {
			log = append(log, "add("+strconv.Itoa(n)+","+strconv.Itoa(m)+")")
			return n + m
		},
		"wrap": func(s string, pre string) string {
			log = append(log, "wrap("+s+","+pre+")")
			return pre + s + pre
		},
		"twice": func(v any) any {
			log = append(log, "twice")
			switch x := v.(type) {
			case int:
				return 2 * x
			case string:
				return x + x
			}
			return v
		},
		"joinall": func(sep string, parts ...string) string {
			log = append(log, "joinall")
			return strings.Join(parts, sep)
		},
		"half": func(f float64) float64 {
			log = append(log, "half")
			return f / 2
		},
		// functions that take the render context and / or are variadic
		"tally": func(ctx *VueContext, label string, nums ...int) string {
			log = append(log, "tally")
			sum := 0
			for _, n := range nums {
				sum += n
			}
			return label + ":" + strconv.Itoa(sum)
		},
		"cjoin": func(ctx *VueContext, parts ...string) string {
			log = append(log, "cjoin")
			return strings.Join(parts, "+")
		},
		"ctxwrap": func(ctx *VueContext, s string, pre string) string {
			log = append(log, "ctxwrap")
			return pre + s
		},
		"count": func(ctx *VueContext, vals ...any) int {
			log = append(log, "count")
			return len(vals)
		},
	}
	chain := zzChoice("chain", 19)
	var expr, want, wantLog string
	switch chain {
	case 0:
		expr, want, wantLog = "a | add(1)", "4", "add(3,1)"
	case 1:
		expr, want, wantLog = "a | add(1) | add(b)", "8", "add(3,1) add(4,4)"
	case 2:
		expr, want, wantLog = "s | wrap('-')", "-x-", "wrap(x,-)"
	case 3:
		expr, want, wantLog = `s | wrap("*") | upper`, "*X*", "wrap(x,*)"
	case 4:
		expr, want, wantLog = "a | twice | add(2)", "8", "twice add(6,2)"
	case 5:
		expr, want, wantLog = "a | wrap('.')", ".3.", "wrap(3,.)" // int converted to the string parameter
	case 6:
		expr, want, wantLog = "n5 | add(1)", "6", "add(5,1)" // numeric string converted to int
	case 7:
		expr, want, wantLog = "s | joinall('a', 'b')", "axb", "joinall"
	case 8:
		expr, want, wantLog = "a | half", "1.5", "half"
	case 9:
		expr, want, wantLog = "s | tally(1, 2)", "x:3", "tally"
	case 10:
		expr, want, wantLog = "s | tally", "x:0", "tally"
	case 11:
		expr, want, wantLog = "s | cjoin('a', 'b')", "x+a+b", "cjoin"
	case 12:
		expr, want, wantLog = "s | ctxwrap('-') | tally(b)", "-x:4", "ctxwrap tally"
	case 13:
		expr, want, wantLog = "tally('n', 4, 5)", "n:9", "tally"
	case 14:
		expr, want, wantLog = "s | count(1, 'two')", "3", "count"
	case 15:
		expr, want, wantLog = "s | wrap('  ')", "  x  ", "wrap(x,  )" // blanks inside a quoted argument reach the function
	case 16: // the other quote character inside a literal, followed by another stage
		expr, want, wantLog = `s | wrap("i's") | upper`, "I'SXI'S", "wrap(x,i's)"
	case 17:
		expr, want, wantLog = `s | wrap('6" n') | upper`, `6" NX6" N`, `wrap(x,6" n)`
	case 18:
		expr, want, wantLog = `s | wrap("a,b") | wrap('(')`, "(a,bxa,b(", "wrap(x,a,b) wrap(a,bxa,b,()"
	}
	pos := zzChoice("pos", 2)
	if chain >= 16 && pos == 1 {
		return // both quote characters cannot be written inside one attribute value
	}
	if chain >= 16 {
		want = stdhtml.EscapeString(want) // quotes are written as character references
	}
	body := `<p>[{{ ` + expr + ` }}]</p>`
	if pos == 1 {
		body = `<p :title="` + strings.ReplaceAll(expr, `"`, `'`) + `">t</p>`
	}
	env := zzC13Env()
	env["n5"] = "5"
	out, err := zzRenderVia(zzEntry(), nil, []LoadOption{WithFuncs(funcs)}, body, env)
	zzNote("expr", expr)
	zzNote("out", out)
	zzNote("log", strings.Join(log, " "))
	if err != nil {
		zzNote("err", err.Error())
	}
	zzAssert(err == nil, "C13.pipe.render-error")
	if pos == 0 {
		zzAssert(strings.Contains(out, "["+want+"]"), "C13.pipe.value")
	} else {
		zzAssert(strings.Contains(out, `title="`+want+`"`), "C13.pipe.value")
	}
	// the helper renders the request twice on one engine: each render calls
	// the functions once, left to right
	zzAssert(strings.Join(log, " ") == wantLog+" "+wantLog, "C13.pipe.left-to-right")
}

// VerifC13_Errors: unknown function, wrong argument count, impossible
// conversion and a returned error fail the render with an error naming the function.
func VerifC13_Errors() {
	funcs := FuncMap{
		"add":      func(n int, m int) int { return n + m },
		"boom":     func(v any) (any, error) { return nil, errors.New("kaput") },
		"unsigned": func(u uint) uint { return u },
	}
	k := zzChoice("case", 7)
	var expr, name string
	switch k {
	case 0:
		expr, name = "a | nofn", "nofn"
	case 1:
		expr, name = "a | add", "add" // too few arguments
	case 2:
		expr, name = "a | add(1, 2)", "add" // too many
	case 3:
		expr, name = "s | add(1)", "add" // "x" is not a number
	case 4:
		expr, name = "a | boom", "boom"
	case 5:
		expr, name = "a | add(1) | nofn2", "nofn2"
	case 6:
		expr, name = "neg | unsigned", "unsigned" // "-5" cannot become a uint
	}
	pos := zzChoice("pos", 3)
	var body string
	switch pos {
	case 0:
		body = `<p>{{ ` + expr + ` }}</p>`
	case 1:
		body = `<p :title="` + expr + `">t</p>`
	case 2:
		body = `<ul><li v-for="i in xs">{{ ` + expr + ` }}</li></ul>`
	}
	env := zzC13Env()
	env["neg"] = "-5"
	out, err := zzRender(NewFS(nil, WithFuncs(funcs)), body, env)
	zzNote("expr", expr)
	zzNote("out", out)
	if err != nil {
		zzNote("err", err.Error())
	}
	zzAssert(err != nil, "C13.err.not-reported")
	zzAssert(strings.Contains(err.Error(), name), "C13.err.names-function")
	zzAssert(out == "", "C13.err.partial-output")
}

type zzC13Product struct {
	Price int
	Stock int
}

type zzC13Order struct {
	Stock int
	Price int
}

// VerifC13_MixedTypes: one expression text evaluated on one engine over
// values of different Go types (in a loop, and in consecutive renders) gives
// the conventional value for each of them.
func VerifC13_MixedTypes() {
	mode := zzChoice("mode", 3)
	tpl := NewFS(nil)
	switch mode {
	case 0: // mixed list in one loop
		order := zzChoice("order", 3)
		lists := [][]any{{1, "a", 1.0, int64(1)}, {"a", 1, 2}, {1.0, 1, "1"}}
		wants := []string{"[true][false][true][true]", "[false][true][false]", "[true][true][false]"}
		out, err := zzRender(tpl, `<p v-for="item in xs">[{{ item == 1 }}]</p>`, map[string]any{"xs": lists[order]})
		zzNote("out", out)
		zzAssert(err == nil, "C13.mixed.render-error")
		zzAssert(strings.Join(strings.Fields(strings.ReplaceAll(strings.ReplaceAll(out, "<p>", ""), "</p>", "")), "") == wants[order], "C13.mixed.loop-values")
	case 1: // consecutive renders with differently typed scalars
		first := zzChoice("first", 4)
		second := zzChoice("second", 4)
		vals := []any{1, 1.0, "1", int64(2)}
		wants := []string{"true", "true", "false", "false"}
		body := `<p>[{{ n == 1 }}]</p><i v-if="n == 1">IF</i><b :t="n == 1">b</b>`
		_, err1 := zzRender(tpl, body, map[string]any{"n": vals[first]})
		out2, err2 := zzRender(tpl, body, map[string]any{"n": vals[second]})
		zzNote("out", out2)
		zzAssert(err1 == nil && err2 == nil, "C13.mixed.render-error")
		zzAssert(strings.Contains(out2, "["+wants[second]+"]"), "C13.mixed.interpolation")
		zzAssert(strings.Contains(out2, ">IF<") == (wants[second] == "true"), "C13.mixed.v-if")
		zzAssert(strings.Contains(out2, `t="true"`) == (wants[second] == "true"), "C13.mixed.bound-attribute")
	case 2: // struct values with the same field names in a different order
		first := zzBool("productFirst")
		var a, b any = zzC13Product{Price: 5, Stock: 9}, zzC13Order{Stock: 7, Price: 3}
		wa, wb := "[6]", "[4]"
		if !first {
			a, b, wa, wb = b, a, wb, wa
		}
		body := `<p>[{{ o.Price + 1 }}]</p>`
		out1, err1 := zzRender(tpl, body, map[string]any{"o": a})
		out2, err2 := zzRender(tpl, body, map[string]any{"o": b})
		zzNote("out", out1+out2)
		zzAssert(err1 == nil && err2 == nil, "C13.mixed.render-error")
		zzAssert(strings.Contains(out1, wa) && strings.Contains(out2, wb), "C13.mixed.struct-field-values")
	}
}

// VerifC13_NilOperands: a variable that is nil, present with a nil value in
// an inner scope, or missing compares and negates like nil in every position.
func VerifC13_NilOperands() {
	how := zzChoice("how", 4) // missing, nil in the data, nil loop item shadowing a value, nil slot prop
	expr := []string{"x == nil", "x != nil", "!x", "x == nil ? 'none' : 'some'", "x != nil && x == 'v'", "!zero", "!word", "!m.missing"}[zzChoice("expr", 8)]
	want := []string{"true", "false", "true", "none", "false", "true", "false", "true"}
	data := map[string]any{"zero": 0, "word": "w", "m": map[string]any{"k": 1}}
	body := `<p>[{{ EXPR }}]</p><a :data-v="EXPR">A</a><i v-if="EXPR">IF</i><i v-else>ELSE</i><s v-show="EXPR">S</s>`
	switch how {
	case 1:
		data["x"] = nil
	case 2:
		data["x"] = "outer"
		data["xs"] = []any{nil}
		body = `<div v-for="x in xs">` + body + `</div>`
	case 3:
		data["x"] = "outer"
		body = `<template :x="nothing">` + body + `</template>`
	}
	body = strings.ReplaceAll(body, "EXPR", expr)
	k := 0
	for i, e := range []string{"x == nil", "x != nil", "!x", "x == nil ? 'none' : 'some'", "x != nil && x == 'v'", "!zero", "!word", "!m.missing"} {
		if e == expr {
			k = i
		}
	}
	out, err := zzRenderVia(zzEntry(), nil, nil, body, data)
	zzNote("template", body)
	zzNote("out", out)
	if err != nil {
		zzNote("err", err.Error())
	}
	zzAssert(err == nil, "C13.nil.render-error")
	zzAssert(strings.Contains(out, "["+want[k]+"]"), "C13.nil.interpolation")
	truthy := want[k] == "true" || want[k] == "none"
	zzAssert(strings.Contains(out, ">IF<") == truthy, "C13.nil.v-if")
	zzAssert(strings.Contains(out, "display:none") == !truthy, "C13.nil.v-show")
	zzAssert(strings.Contains(out, "data-v=") == truthy, "C13.nil.bound-attribute")
}

// VerifC13_Literals: a quoted string argument reaches the function exactly as
// written between its quotes, for every content over an alphabet with both
// quote characters, blanks and a comma (the content is a solver variable;
// the DOM is built directly so that only the expression code reads it).
func VerifC13_Literals() {
	q := []string{"'", `"`}[zzChoice("quote", 2)]
	lit := zzStringIn("lit", zzBound("NL", 2, 3), `'" a,`)
	zzAssume(!zzContains(lit, q))
	var got []string
	funcs := FuncMap{
		"wrap": func(s string, pre string) string {
			got = append(got, pre)
			return pre + s + pre
		},
	}
	form := zzChoice("form", 3)
	expr := "s | wrap(" + q + lit + q + ")"
	switch form {
	case 1:
		expr = "s | wrap(" + q + lit + q + ") | upper"
	case 2:
		expr = "wrap(s, " + q + lit + q + ")"
	}
	p := &html.Node{Type: html.ElementNode, Data: "p"}
	if zzBool("boundAttribute") {
		p.Attr = []html.Attribute{{Key: ":title", Val: expr}}
	} else {
		p.AppendChild(&html.Node{Type: html.TextNode, Data: "{{ " + expr + " }}"})
	}
	vue := NewVue(nil)
	vue.Funcs(funcs)
	var sb stringsBuilder
	err := vue.RenderNodes(&sb, []*html.Node{p}, map[string]any{"s": "x"})
	zzNote("expr", expr)
	zzNote("out", sb.String())
	if err != nil {
		zzNote("err", err.Error())
	}
	zzAssert(err == nil, "C13.literals.render-error")
	zzAssert(len(got) == 1 && got[0] == lit, "C13.literals.argument-as-written")
}
