package vuego

import (
	"context"
	"errors"
	"io"
	"io/fs"
	"sort"
	"strings"
	"sync/atomic"
	"time"

	"golang.org/x/net/html"
)

type stringsBuilder = strings.Builder

// zzCtx is an interpretable context.Context.
type zzCtx struct{ err error }

func (c zzCtx) Deadline() (time.Time, bool) { return time.Time{}, false }
func (c zzCtx) Done() <-chan struct{}       { return nil }
func (c zzCtx) Err() error                  { return c.err }
func (c zzCtx) Value(key any) any           { return nil }

func contextBackground() context.Context { return zzCtx{} }

// zzFS is a small in-memory filesystem (path -> content) implementing
// fs.FS, fs.ReadFileFS, fs.StatFS and fs.ReadDirFS with ordinary Go code.
type zzFS struct {
	files map[string]string
	mtime map[string]int64 // 0 = zero time
	gen   atomic.Int64     // added to every non-zero modification time (bumped by concurrent harnesses)
}

func newZZFS(files map[string]string) *zzFS { return &zzFS{files: files, mtime: map[string]int64{}} }

type zzInfo struct {
	name  string
	size  int64
	dir   bool
	mtime int64
}

func (i zzInfo) Name() string { return i.name }
func (i zzInfo) Size() int64  { return i.size }
func (i zzInfo) Mode() fs.FileMode {
	if i.dir {
		return fs.ModeDir | 0o555
	}
	return 0o444
}
func (f *zzFS) mt(name string) int64 {
	m := f.mtime[name]
	if m == 0 {
		return 0
	}
	return m + f.gen.Load()
}

func (i zzInfo) ModTime() time.Time {
	if i.mtime == 0 {
		return time.Time{}
	}
	return time.Unix(i.mtime, 0)
}
func (i zzInfo) IsDir() bool                { return i.dir }
func (i zzInfo) Sys() any                   { return nil }
func (i zzInfo) Type() fs.FileMode          { return i.Mode().Type() }
func (i zzInfo) Info() (fs.FileInfo, error) { return i, nil }

func zzBase(p string) string {
	if k := strings.LastIndex(p, "/"); k >= 0 {
		return p[k+1:]
	}
	return p
}

func (f *zzFS) isDir(name string) bool {
	if name == "." {
		return true
	}
	for p := range f.files {
		if strings.HasPrefix(p, name+"/") {
			return true
		}
	}
	return false
}

func (f *zzFS) Stat(name string) (fs.FileInfo, error) {
	if c, ok := f.files[name]; ok {
		return zzInfo{name: zzBase(name), size: int64(len(c)), mtime: f.mt(name)}, nil
	}
	if f.isDir(name) {
		return zzInfo{name: zzBase(name), dir: true}, nil
	}
	return nil, &fs.PathError{Op: "stat", Path: name, Err: fs.ErrNotExist}
}

func (f *zzFS) ReadFile(name string) ([]byte, error) {
	if c, ok := f.files[name]; ok {
		return []byte(c), nil
	}
	return nil, &fs.PathError{Op: "open", Path: name, Err: fs.ErrNotExist}
}

func (f *zzFS) ReadDir(name string) ([]fs.DirEntry, error) {
	if !f.isDir(name) {
		return nil, &fs.PathError{Op: "readdir", Path: name, Err: fs.ErrNotExist}
	}
	seen := map[string]bool{}
	var names []string
	for p := range f.files {
		rest := p
		if name != "." {
			if !strings.HasPrefix(p, name+"/") {
				continue
			}
			rest = p[len(name)+1:]
		}
		if k := strings.Index(rest, "/"); k >= 0 {
			rest = rest[:k]
		}
		if !seen[rest] {
			seen[rest] = true
			names = append(names, rest)
		}
	}
	sort.Strings(names)
	var out []fs.DirEntry
	for _, n := range names {
		full := n
		if name != "." {
			full = name + "/" + n
		}
		if c, ok := f.files[full]; ok {
			out = append(out, zzInfo{name: n, size: int64(len(c)), mtime: f.mt(full)})
		} else {
			out = append(out, zzInfo{name: n, dir: true})
		}
	}
	return out, nil
}

type zzFile struct {
	info zzInfo
	data string
	off  int
}

func (z *zzFile) Stat() (fs.FileInfo, error) { return z.info, nil }
func (z *zzFile) Close() error               { return nil }
func (z *zzFile) Read(p []byte) (int, error) {
	if z.info.dir {
		// as os.DirFS and fstest.MapFS do
		return 0, &fs.PathError{Op: "read", Path: z.info.name, Err: errors.New("is a directory")}
	}
	if z.off >= len(z.data) {
		return 0, io.EOF
	}
	n := copy(p, z.data[z.off:])
	z.off += n
	return n, nil
}

func (f *zzFS) Open(name string) (fs.File, error) {
	if c, ok := f.files[name]; ok {
		return &zzFile{info: zzInfo{name: zzBase(name), size: int64(len(c)), mtime: f.mt(name)}, data: c}, nil
	}
	if f.isDir(name) {
		return &zzFile{info: zzInfo{name: zzBase(name), dir: true}}, nil
	}
	return nil, &fs.PathError{Op: "open", Path: name, Err: fs.ErrNotExist}
}

// zzRender renders a string template with data through the public API.
func zzRender(tpl Template, body string, data map[string]any) (string, error) {
	var sb strings.Builder
	err := tpl.New().Fill(data).RenderString(contextBackground(), &sb, body)
	return sb.String(), err
}

// zzRenderFile renders a file of fsys with data through the public API.
func zzRenderFile(fsys fs.FS, name string, data map[string]any) (string, error) {
	var sb strings.Builder
	err := NewFS(fsys).Fill(data).RenderFile(contextBackground(), &sb, name)
	return sb.String(), err
}

// zzWriter accepts at most limit bytes, then fails.
type zzWriter struct {
	limit     int
	got       []byte
	fails     int
	transient bool // only the first write that crosses the limit fails; later writes are accepted
}

func (w *zzWriter) Write(p []byte) (int, error) {
	if w.transient && w.fails > 0 {
		w.got = append(w.got, p...)
		return len(p), nil
	}
	room := w.limit - len(w.got)
	if len(p) <= room {
		w.got = append(w.got, p...)
		return len(p), nil
	}
	if room > 0 {
		w.got = append(w.got, p[:room]...)
	} else {
		room = 0
	}
	w.fails++
	return room, errors.New("zz: writer full")
}

// small DOM builders
func zzElem(tag string) *html.Node         { return &html.Node{Type: html.ElementNode, Data: tag} }
func zzText(s string) *html.Node           { return &html.Node{Type: html.TextNode, Data: s} }
func zzAttr(k, v string) html.Attribute    { return html.Attribute{Key: k, Val: v} }
func zzNodes(n ...*html.Node) []*html.Node { return n }

// zzFlat removes white space: what the serialiser adds between tags is insignificant.
func zzFlat(s string) string {
	return strings.Join(strings.Fields(s), "")
}
