package vuego

import (
	"context"
	"strings"
	"time"
)

type stringsBuilder = strings.Builder

// zzCtx is an interpretable context.Context.
type zzCtx struct{ err error }

func (c zzCtx) Deadline() (time.Time, bool) { return time.Time{}, false }
func (c zzCtx) Done() <-chan struct{}       { return nil }
func (c zzCtx) Err() error                  { return c.err }
func (c zzCtx) Value(key any) any           { return nil }

func contextBackground() context.Context { return zzCtx{} }
