package vuego

import (
	"context"
	"errors"
	"io"
	"io/fs"
	"sort"
	"strings"
	"sync/atomic"
	"time"

	"golang.org/x/net/html"
)

type stringsBuilder = strings.Builder

// zzCtx is an interpretable context.Context.
type zzCtx struct{ err error }

func (c zzCtx) Deadline() (time.Time, bool) { return time.Time{}, false }
func (c zzCtx) Done() <-chan struct{}       { return nil }
func (c zzCtx) Err() error                  { return c.err }
func (c zzCtx) Value(key any) any           { return nil }

func contextBackground() context.Context { return zzCtx{} }

// zzLateCtx is alive for its first `alive` consultations and cancelled from
// then on: a deadline that expires while a render is under way.
type zzLateCtx struct {
	alive int
	calls *int
}

func (c zzLateCtx) Deadline() (time.Time, bool) { return time.Time{}, false }
func (c zzLateCtx) Done() <-chan struct{}       { return nil }
func (c zzLateCtx) Value(key any) any           { return nil }
func (c zzLateCtx) Err() error {
	*c.calls++
	if *c.calls > c.alive {
		return context.Canceled
	}
	return nil
}

// zzFS is a small in-memory filesystem (path -> content) implementing
// fs.FS, fs.ReadFileFS, fs.StatFS and fs.ReadDirFS with ordinary Go code.
type zzFS struct {
	files map[string]string
	mtime map[string]int64 // 0 = zero time
	gen   atomic.Int64     // added to every non-zero modification time (bumped by concurrent harnesses)
}

func newZZFS(files map[string]string) *zzFS { return &zzFS{files: files, mtime: map[string]int64{}} }

type zzInfo struct {
	name  string
	size  int64
	dir   bool
	mtime int64
}

func (i zzInfo) Name() string { return i.name }
func (i zzInfo) Size() int64  { return i.size }
func (i zzInfo) Mode() fs.FileMode {
	if i.dir {
		return fs.ModeDir | 0o555
	}
	return 0o444
}
func (f *zzFS) mt(name string) int64 {
	m := f.mtime[name]
	if m == 0 {
		return 0
	}
	return m + f.gen.Load()
}

func (i zzInfo) ModTime() time.Time {
	if i.mtime == 0 {
		return time.Time{}
	}
	return time.Unix(i.mtime, 0)
}
func (i zzInfo) IsDir() bool                { return i.dir }
func (i zzInfo) Sys() any                   { return nil }
func (i zzInfo) Type() fs.FileMode          { return i.Mode().Type() }
func (i zzInfo) Info() (fs.FileInfo, error) { return i, nil }

func zzBase(p string) string {
	if k := strings.LastIndex(p, "/"); k >= 0 {
		return p[k+1:]
	}
	return p
}

func (f *zzFS) isDir(name string) bool {
	if name == "." {
		return true
	}
	for p := range f.files {
		if strings.HasPrefix(p, name+"/") {
			return true
		}
	}
	return false
}

func (f *zzFS) Stat(name string) (fs.FileInfo, error) {
	if c, ok := f.files[name]; ok {
		return zzInfo{name: zzBase(name), size: int64(len(c)), mtime: f.mt(name)}, nil
	}
	if f.isDir(name) {
		return zzInfo{name: zzBase(name), dir: true}, nil
	}
	return nil, &fs.PathError{Op: "stat", Path: name, Err: fs.ErrNotExist}
}

func (f *zzFS) ReadFile(name string) ([]byte, error) {
	if c, ok := f.files[name]; ok {
		return []byte(c), nil
	}
	return nil, &fs.PathError{Op: "open", Path: name, Err: fs.ErrNotExist}
}

func (f *zzFS) ReadDir(name string) ([]fs.DirEntry, error) {
	if _, isFile := f.files[name]; isFile {
		// as os.DirFS does for a regular file
		return nil, &fs.PathError{Op: "readdir", Path: name, Err: errors.New("not a directory")}
	}
	if !f.isDir(name) {
		return nil, &fs.PathError{Op: "readdir", Path: name, Err: fs.ErrNotExist}
	}
	seen := map[string]bool{}
	var names []string
	for p := range f.files {
		rest := p
		if name != "." {
			if !strings.HasPrefix(p, name+"/") {
				continue
			}
			rest = p[len(name)+1:]
		}
		if k := strings.Index(rest, "/"); k >= 0 {
			rest = rest[:k]
		}
		if !seen[rest] {
			seen[rest] = true
			names = append(names, rest)
		}
	}
	sort.Strings(names)
	var out []fs.DirEntry
	for _, n := range names {
		full := n
		if name != "." {
			full = name + "/" + n
		}
		if c, ok := f.files[full]; ok {
			out = append(out, zzInfo{name: n, size: int64(len(c)), mtime: f.mt(full)})
		} else {
			out = append(out, zzInfo{name: n, dir: true})
		}
	}
	return out, nil
}

type zzFile struct {
	info zzInfo
	data string
	off  int
}

func (z *zzFile) Stat() (fs.FileInfo, error) { return z.info, nil }
func (z *zzFile) Close() error               { return nil }
func (z *zzFile) Read(p []byte) (int, error) {
	if z.info.dir {
		// as os.DirFS and fstest.MapFS do
		return 0, &fs.PathError{Op: "read", Path: z.info.name, Err: errors.New("is a directory")}
	}
	if z.off >= len(z.data) {
		return 0, io.EOF
	}
	n := copy(p, z.data[z.off:])
	z.off += n
	return n, nil
}

func (f *zzFS) Open(name string) (fs.File, error) {
	if c, ok := f.files[name]; ok {
		return &zzFile{info: zzInfo{name: zzBase(name), size: int64(len(c)), mtime: f.mt(name)}, data: c}, nil
	}
	if f.isDir(name) {
		return &zzFile{info: zzInfo{name: zzBase(name), dir: true}}, nil
	}
	return nil, &fs.PathError{Op: "open", Path: name, Err: fs.ErrNotExist}
}

// zzRender renders a string template with data through the public API.
func zzRender(tpl Template, body string, data map[string]any) (string, error) {
	var sb strings.Builder
	err := tpl.New().Fill(data).RenderString(contextBackground(), &sb, body)
	return sb.String(), err
}

// zzRenderFile renders a file of fsys with data through the public API.
func zzRenderFile(fsys fs.FS, name string, data map[string]any) (string, error) {
	var sb strings.Builder
	err := NewFS(fsys).Fill(data).RenderFile(contextBackground(), &sb, name)
	return sb.String(), err
}

// zzWriter accepts at most limit bytes, then fails.
type zzWriter struct {
	limit     int
	got       []byte
	fails     int
	transient bool // only the first write that crosses the limit fails; later writes are accepted
}

func (w *zzWriter) Write(p []byte) (int, error) {
	if w.transient && w.fails > 0 {
		w.got = append(w.got, p...)
		return len(p), nil
	}
	room := w.limit - len(w.got)
	if len(p) <= room {
		w.got = append(w.got, p...)
		return len(p), nil
	}
	if room > 0 {
		w.got = append(w.got, p[:room]...)
	} else {
		room = 0
	}
	w.fails++
	return room, errors.New("zz: writer full")
}

// small DOM builders
func zzElem(tag string) *html.Node         { return &html.Node{Type: html.ElementNode, Data: tag} }
func zzText(s string) *html.Node           { return &html.Node{Type: html.TextNode, Data: s} }
func zzAttr(k, v string) html.Attribute    { return html.Attribute{Key: k, Val: v} }
func zzNodes(n ...*html.Node) []*html.Node { return n }

// zzFlat removes white space: what the serialiser adds between tags is insignificant.
func zzFlat(s string) string {
	return strings.Join(strings.Fields(s), "")
}

// zzRenderVia renders body with data through one of the engine's entry
// points, chosen per path: the properties are stated for the engine, not for
// one method. File entry points get the body as a file of the filesystem.
// quick: RenderString and RenderFile; thorough: all six.
func zzEntry() int { return zzChoice("entry", zzBound("entries", 2, 6)) }

func zzRenderVia(entry int, fsys *zzFS, opts []LoadOption, body string, data map[string]any) (string, error) {
	if fsys == nil {
		fsys = newZZFS(map[string]string{})
	}
	const page = "zz_page.vuego"
	if entry == 1 || entry == 2 || entry == 5 {
		fsys.files[page] = body
	}
	tpl := NewFS(fsys, opts...)
	vue := NewVue(fsys)
	once := func() (string, error) {
		var sb strings.Builder
		var err error
		switch entry {
		case 0:
			err = tpl.New().Fill(data).RenderString(contextBackground(), &sb, body)
		case 1:
			err = tpl.New().Fill(data).RenderFile(contextBackground(), &sb, page)
		case 2:
			err = tpl.Load(page).Fill(data).Render(contextBackground(), &sb)
		case 3:
			err = tpl.New().Fill(data).RenderByte(contextBackground(), &sb, []byte(body))
		case 4:
			err = tpl.New().Fill(data).RenderReader(contextBackground(), &sb, strings.NewReader(body))
		case 5:
			if len(opts) > 0 {
				err = tpl.New().Fill(data).RenderString(contextBackground(), &sb, body)
				break
			}
			err = vue.RenderFragment(&sb, page, data)
		}
		return sb.String(), err
	}
	out, err := once()
	// the same request again on the same engine: whatever the property at
	// hand says about this input, it says it about both renders
	out2, err2 := once()
	zzAssert((err == nil) == (err2 == nil) && out == out2, "rerender.same-engine-same-input-differs")
	return out, err
}
