package sym

// encoding/json and yaml bridges: decoded natively on concrete input. A
// symbolic document is first tested against a necessary condition for being
// valid JSON (so that obviously invalid strings need no forking) and is
// otherwise concretised.

import (
	"encoding/json"
	"fmt"
	"go/types"
	"strings"

	"gopkg.in/yaml.v3"

	"verif/engine/smt"
)

func init() {
	intrinsics["encoding/json.Unmarshal"] = inJSONUnmarshal
	intrinsics["encoding/json.Marshal"] = func(fr *frame, a []value) value { return inJSONMarshal(fr, a[0], "", "") }
	intrinsics["encoding/json.MarshalIndent"] = func(fr *frame, a []value) value {
		return inJSONMarshal(fr, a[0], fr.i.concStr(a[1]), fr.i.concStr(a[2]))
	}
	intrinsics["encoding/json.Valid"] = func(fr *frame, a []value) value {
		return json.Valid([]byte(fr.i.concStr(a[0])))
	}
	intrinsics["gopkg.in/yaml.v3.Unmarshal"] = inYAMLUnmarshal
	// json.Decoder over a reader: the reader is drained into a native decoder
	// once; every Decode takes the next value (trailing text is not an error)
	intrinsics["encoding/json.NewDecoder"] = func(fr *frame, a []value) value {
		res := inIoReadAll(fr, []value{a[0]}).(tuple)
		doc := fr.i.concStr(fr.i.mkStr(fr.i.bytesToStr(res[0])))
		var cell value = nativeObj{json.NewDecoder(strings.NewReader(doc))}
		return &cell
	}
	intrinsics["(*encoding/json.Decoder).Decode"] = func(fr *frame, a []value) value {
		i := fr.i
		dec := (*a[0].(*value)).(nativeObj).v.(*json.Decoder)
		target := a[1].(iface)
		p, ok := target.v.(*value)
		if !ok || p == nil {
			return i.newError("json: Unmarshal(non-pointer)", iface{})
		}
		var out any
		if err := dec.Decode(&out); err != nil {
			return i.newError(err.Error(), iface{})
		}
		switch mustDeref(target.t).Underlying().(type) {
		case *types.Interface:
			*p = i.fromNativeAny(out, nil)
		default:
			if out == nil {
				return iface{}
			}
			*p = i.fromNativeAny(out, nil).(iface).v
		}
		return iface{}
	}
}

// jsonMayBeValid is a necessary condition for s to be a JSON document.
func (i *interpreter) jsonMayBeValid(s *Str) *smt.Term {
	F := i.F
	L := i.L
	t := L.trimSet(s, " \t\r\n", true, true)
	first := L.byteAt(t, F.BV(0, posW))
	n := L.length16(t)
	nonEmpty := F.Not(F.Eq(n, F.BV(0, posW)))
	last := L.byteAt(t, F.Sub(n, F.BV(1, posW)))
	isB := func(b *smt.Term, c byte) *smt.Term { return F.Eq(b, F.BV(uint64(c), 8)) }
	// first non-space byte after the opening brace
	inner := L.trimSet(L.slice(t, F.BV(1, posW), nil), " \t\r\n", true, false)
	innerFirst := L.byteAt(inner, F.BV(0, posW))
	obj := F.And(isB(first, '{'), isB(last, '}'), F.Or(isB(innerFirst, '"'), isB(innerFirst, '}')))
	arr := F.And(isB(first, '['), isB(last, ']'))
	scalar := L.inSet(first, "0123456789-\"tfn")
	return F.And(nonEmpty, F.Or(obj, arr, scalar))
}

func inJSONUnmarshal(fr *frame, a []value) value {
	i := fr.i
	var doc string
	switch d := a[0].(type) {
	case symBytes:
		if !i.branch(i.jsonMayBeValid(d.Str)) {
			return i.newError("invalid character looking for beginning of value", iface{})
		}
		doc = i.concStr(symStr{d.Str})
	default:
		doc = i.concStr(i.mkStr(i.bytesToStr(d)))
	}
	target := a[1].(iface)
	p, ok := target.v.(*value)
	if !ok || p == nil {
		return i.newError("json: Unmarshal(non-pointer)", iface{})
	}
	et := mustDeref(target.t)
	switch ut := et.Underlying().(type) {
	case *types.Interface:
		var out any
		if err := json.Unmarshal([]byte(doc), &out); err != nil {
			return i.newError(err.Error(), iface{})
		}
		*p = i.fromNativeAny(out, nil)
		return iface{}
	case *types.Map:
		var out map[string]any
		if err := json.Unmarshal([]byte(doc), &out); err != nil {
			return i.newError(err.Error(), iface{})
		}
		if out == nil {
			*p = (*smap)(nil)
			return iface{}
		}
		*p = i.fromNativeAny(out, nil).(iface).v
		_ = ut
		return iface{}
	case *types.Slice:
		var out []any
		if err := json.Unmarshal([]byte(doc), &out); err != nil {
			return i.newError(err.Error(), iface{})
		}
		*p = i.fromNativeAny(out, nil).(iface).v
		return iface{}
	}
	unsupported("json.Unmarshal into %s", et)
	return nil
}

func inJSONMarshal(fr *frame, v value, prefix, indent string) value {
	i := fr.i
	nv, ok := i.toNativeAny(v, map[int]value{})
	if !ok {
		// symbolic leaves: concretise strings inside the value
		nv, ok = i.toNativeAny(i.deepConcretize(v), map[int]value{})
		if !ok {
			unsupported("json.Marshal of %T", v)
		}
	}
	var b []byte
	var err error
	if indent != "" || prefix != "" {
		b, err = json.MarshalIndent(nv, prefix, indent)
	} else {
		b, err = json.Marshal(nv)
	}
	if err != nil {
		return tuple{[]value(nil), i.newError(err.Error(), iface{})}
	}
	return tuple{i.strToBytes(string(b)), iface{}}
}

// deepConcretize replaces symbolic leaves inside v by concrete values (forking).
func (i *interpreter) deepConcretize(v value) value {
	switch x := v.(type) {
	case symStr, symInt, symBool, symBytes:
		return i.concretize(x)
	case iface:
		return iface{x.t, i.deepConcretize(x.v)}
	case []value:
		out := make([]value, len(x))
		for k, e := range x {
			out[k] = i.deepConcretize(e)
		}
		return out
	case *smap:
		if x == nil {
			return x
		}
		m := newSmap(x.keyT)
		for _, e := range x.ents {
			m.ents = append(m.ents, smapEntry{i.deepConcretize(e.k), i.deepConcretize(e.v)})
		}
		return m
	case structure:
		out := make(structure, len(x))
		for k, e := range x {
			out[k] = i.deepConcretize(e)
		}
		return out
	}
	return v
}

func inYAMLUnmarshal(fr *frame, a []value) value {
	i := fr.i
	doc := i.concStr(i.mkStr(i.bytesToStr(a[0])))
	target := a[1].(iface)
	p, ok := target.v.(*value)
	if !ok || p == nil {
		return i.newError("yaml: unmarshal into non-pointer", iface{})
	}
	et := mustDeref(target.t)
	switch et.Underlying().(type) {
	case *types.Map:
		out := map[string]any{}
		if cur, ok := (*p).(*smap); ok && cur != nil {
			// yaml merges into an existing map
			for _, e := range cur.ents {
				nv, ok := i.toNativeAny(e.v, map[int]value{})
				if !ok {
					unsupported("yaml.Unmarshal into a map holding symbolic values")
				}
				out[i.concStr(e.k)] = nv
			}
		}
		if err := yaml.Unmarshal([]byte(doc), &out); err != nil {
			return i.newError(err.Error(), iface{})
		}
		*p = i.fromNativeAny(normYAML(out), nil).(iface).v
		return iface{}
	case *types.Interface:
		var out any
		if err := yaml.Unmarshal([]byte(doc), &out); err != nil {
			return i.newError(err.Error(), iface{})
		}
		*p = i.fromNativeAny(normYAML(out), nil)
		return iface{}
	}
	unsupported("yaml.Unmarshal into %s", et)
	return nil
}

// normYAML converts map[interface{}]interface{} (never produced by yaml.v3 for
// string keys, but be safe) and keeps the rest.
func normYAML(v any) any {
	switch x := v.(type) {
	case map[string]any:
		for k, e := range x {
			x[k] = normYAML(e)
		}
		return x
	case map[any]any:
		out := map[string]any{}
		for k, e := range x {
			out[fmt.Sprint(k)] = normYAML(e)
		}
		return out
	case []any:
		for k, e := range x {
			x[k] = normYAML(e)
		}
		return x
	}
	return v
}
