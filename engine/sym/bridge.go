package sym

// Generic native bridge: pure library functions that are only ever needed on
// concrete arguments are called natively by reflection; interpreter values
// are converted by Go type. A symbolic argument is first determinised
// (uniqueness check, then forking) — these functions have no symbolic model.

import (
	"bytes"
	"fmt"
	"go/types"
	"html"
	"reflect"
	"strconv"
	"strings"
	"unicode"
	"unicode/utf8"

	xhtml "golang.org/x/net/html"

	"golang.org/x/tools/go/ssa"
)

// nativeFirst: functions with a symbolic model that are nevertheless called
// natively when every argument is concrete (fast path; same result).
var nativeFirst = map[string]any{
	// concrete runes get the real Unicode tables (the symbolic models are ASCII-only)
	"unicode.IsSpace":                    unicode.IsSpace,
	"unicode.IsUpper":                    unicode.IsUpper,
	"unicode.IsLower":                    unicode.IsLower,
	"unicode.IsDigit":                    unicode.IsDigit,
	"unicode.IsLetter":                   unicode.IsLetter,
	"unicode.ToLower":                    unicode.ToLower,
	"unicode.ToUpper":                    unicode.ToUpper,
	"strings.Contains":                   strings.Contains,
	"strings.ContainsAny":                strings.ContainsAny,
	"strings.ContainsRune":               strings.ContainsRune,
	"strings.Index":                      strings.Index,
	"strings.IndexByte":                  strings.IndexByte,
	"strings.IndexAny":                   strings.IndexAny,
	"strings.IndexRune":                  strings.IndexRune,
	"strings.LastIndex":                  strings.LastIndex,
	"strings.LastIndexAny":               strings.LastIndexAny,
	"strings.Count":                      strings.Count,
	"strings.HasPrefix":                  strings.HasPrefix,
	"strings.HasSuffix":                  strings.HasSuffix,
	"strings.TrimSpace":                  strings.TrimSpace,
	"strings.Trim":                       strings.Trim,
	"strings.TrimLeft":                   strings.TrimLeft,
	"strings.TrimRight":                  strings.TrimRight,
	"strings.TrimPrefix":                 strings.TrimPrefix,
	"strings.TrimSuffix":                 strings.TrimSuffix,
	"strings.ToLower":                    strings.ToLower,
	"strings.ToUpper":                    strings.ToUpper,
	"strings.Split":                      strings.Split,
	"strings.SplitN":                     strings.SplitN,
	"strings.Join":                       strings.Join,
	"strings.Repeat":                     strings.Repeat,
	"strings.ReplaceAll":                 strings.ReplaceAll,
	"strings.Replace":                    strings.Replace,
	"strings.Fields":                     strings.Fields,
	"strings.EqualFold":                  strings.EqualFold,
	"strconv.Itoa":                       strconv.Itoa,
	"html.EscapeString":                  html.EscapeString,
	"golang.org/x/net/html.EscapeString": xhtml.EscapeString,
}

func allConcrete(args []value) bool {
	for _, a := range args {
		switch x := a.(type) {
		case string, bool, int, int8, int16, int32, int64, uint, uint8, uint16, uint32, uint64, float64:
		case nil:
		case []value:
			for _, e := range x {
				switch e.(type) {
				case string, uint8, int32:
				default:
					return false
				}
			}
		default:
			return false
		}
	}
	return true
}

var bridgeFuncs = map[string]any{
	"bytes.Equal":                         bytes.Equal,
	"bytes.EqualFold":                     bytes.EqualFold,
	"bytes.ToLower":                       bytes.ToLower,
	"bytes.ToUpper":                       bytes.ToUpper,
	"bytes.IndexByte":                     bytes.IndexByte,
	"bytes.IndexAny":                      bytes.IndexAny,
	"bytes.LastIndex":                     bytes.LastIndex,
	"bytes.Count":                         bytes.Count,
	"bytes.TrimRight":                     bytes.TrimRight,
	"bytes.TrimLeft":                      bytes.TrimLeft,
	"bytes.Trim":                          bytes.Trim,
	"bytes.Split":                         bytes.Split,
	"bytes.Join":                          bytes.Join,
	"bytes.Replace":                       bytes.Replace,
	"bytes.ReplaceAll":                    bytes.ReplaceAll,
	"bytes.Cut":                           bytes.Cut,
	"bytes.CutPrefix":                     bytes.CutPrefix,
	"bytes.CutSuffix":                     bytes.CutSuffix,
	"bytes.TrimPrefix":                    bytes.TrimPrefix,
	"bytes.TrimSuffix":                    bytes.TrimSuffix,
	"bytes.Fields":                        bytes.Fields,
	"bytes.SplitN":                        bytes.SplitN,
	"bytes.LastIndexByte":                 bytes.LastIndexByte,
	"bytes.ContainsAny":                   bytes.ContainsAny,
	"bytes.ContainsRune":                  bytes.ContainsRune,
	"bytes.IndexRune":                     bytes.IndexRune,
	"bytes.Repeat":                        bytes.Repeat,
	"bytes.Compare":                       bytes.Compare,
	"strings.CutPrefix":                   strings.CutPrefix,
	"strings.CutSuffix":                   strings.CutSuffix,
	"strings.LastIndexByte":               strings.LastIndexByte,
	"strings.IndexFunc":                   nil,
	"strings.Compare":                     strings.Compare,
	"strings.ToTitle":                     strings.ToTitle,
	"strings.Cut":                         strings.Cut,
	"strings.SplitAfter":                  strings.SplitAfter,
	"strconv.AppendInt":                   strconv.AppendInt,
	"strconv.FormatFloat":                 strconv.FormatFloat,
	"strconv.FormatBool":                  strconv.FormatBool,
	"strconv.Unquote":                     strconv.Unquote,
	"strconv.QuoteRune":                   strconv.QuoteRune,
	"unicode.IsPunct":                     unicode.IsPunct,
	"unicode.IsControl":                   unicode.IsControl,
	"unicode.IsPrint":                     unicode.IsPrint,
	"unicode.IsNumber":                    unicode.IsNumber,
	"unicode/utf8.EncodeRune":             utf8.EncodeRune,
	"unicode/utf8.AppendRune":             utf8.AppendRune,
	"unicode/utf8.DecodeRune":             utf8.DecodeRune,
	"unicode/utf8.DecodeRuneInString":     utf8.DecodeRuneInString,
	"unicode/utf8.DecodeLastRuneInString": utf8.DecodeLastRuneInString,
	"unicode/utf8.DecodeLastRune":         utf8.DecodeLastRune,
	"unicode/utf8.ValidString":            utf8.ValidString,
	"unicode/utf8.Valid":                  utf8.Valid,
	"unicode/utf8.RuneCount":              utf8.RuneCount,
	"unicode/utf8.FullRune":               utf8.FullRune,
	"unicode/utf8.ValidRune":              utf8.ValidRune,
}

// toNativeArg converts an interpreter value to a Go value of type rt.
func (i *interpreter) toNativeArg(v value, rt reflect.Type) (reflect.Value, bool) {
	switch rt.Kind() {
	case reflect.String:
		return reflect.ValueOf(i.concStr(v)).Convert(rt), true
	case reflect.Bool:
		return reflect.ValueOf(i.concretize(v).(bool)), true
	case reflect.Int, reflect.Int8, reflect.Int16, reflect.Int32, reflect.Int64:
		return reflect.ValueOf(asInt64(i.concretize(v))).Convert(rt), true
	case reflect.Uint, reflect.Uint8, reflect.Uint16, reflect.Uint32, reflect.Uint64, reflect.Uintptr:
		return reflect.ValueOf(uint64(asInt64(i.concretize(v)))).Convert(rt), true
	case reflect.Float64, reflect.Float32:
		switch f := v.(type) {
		case float64:
			return reflect.ValueOf(f).Convert(rt), true
		case float32:
			return reflect.ValueOf(f).Convert(rt), true
		}
	case reflect.Slice:
		switch rt.Elem().Kind() {
		case reflect.Uint8:
			switch x := v.(type) {
			case nil:
				return reflect.Zero(rt), true
			case symBytes:
				return reflect.ValueOf([]byte(i.concStr(symStr{x.Str}))), true
			case []value:
				if x == nil {
					return reflect.Zero(rt), true
				}
				b := make([]byte, len(x))
				for k, e := range x {
					b[k] = byte(asInt64(i.concretize(e)))
				}
				return reflect.ValueOf(b), true
			}
		case reflect.String:
			ss := i.concStrs(v)
			return reflect.ValueOf(ss), true
		case reflect.Slice:
			if v == nil {
				return reflect.Zero(rt), true
			}
			out := reflect.MakeSlice(rt, 0, 0)
			for _, e := range v.([]value) {
				ev, ok := i.toNativeArg(e, rt.Elem())
				if !ok {
					return reflect.Value{}, false
				}
				out = reflect.Append(out, ev)
			}
			return out, true
		}
	}
	return reflect.Value{}, false
}

// fromNative converts a native result to an interpreter value of static type t.
func (i *interpreter) fromNative(x reflect.Value, t types.Type) value {
	switch ut := t.Underlying().(type) {
	case *types.Basic:
		switch {
		case ut.Info()&types.IsString != 0:
			return x.String()
		case ut.Info()&types.IsBoolean != 0:
			return x.Bool()
		case ut.Info()&types.IsInteger != 0:
			k, _ := basicKindOf(t)
			if ut.Info()&types.IsUnsigned != 0 {
				return mkInt(k, x.Uint())
			}
			return mkInt(k, uint64(x.Int()))
		case ut.Kind() == types.Float64:
			return x.Float()
		case ut.Kind() == types.Float32:
			return float32(x.Float())
		}
	case *types.Slice:
		if x.IsNil() {
			return []value(nil)
		}
		out := make([]value, x.Len())
		for k := 0; k < x.Len(); k++ {
			out[k] = i.fromNative(x.Index(k), ut.Elem())
		}
		return out
	case *types.Interface:
		if x.IsNil() {
			return iface{}
		}
		if e, ok := x.Interface().(error); ok {
			return i.newError(e.Error(), iface{})
		}
	}
	panic(stop{kind: "unsupported", msg: fmt.Sprintf("bridge result of type %s", t)})
}

func (i *interpreter) callBridge(fr *frame, fn *ssa.Function, name string, args []value) (value, bool) {
	f, ok := bridgeFuncs[name]
	if !ok || f == nil {
		return nil, false
	}
	return i.callNative(fr, fn, name, f, args)
}

func (i *interpreter) callNative(fr *frame, fn *ssa.Function, name string, f any, args []value) (value, bool) {
	fv := reflect.ValueOf(f)
	ft := fv.Type()
	if ft.NumIn() != len(args) {
		return nil, false
	}
	in := make([]reflect.Value, len(args))
	for k, a := range args {
		v, ok := i.toNativeArg(a, ft.In(k))
		if !ok {
			panic(stop{kind: "unsupported", msg: fmt.Sprintf("bridge %s: argument %d of type %T", name, k, a)})
		}
		in[k] = v
	}
	out := fv.Call(in)
	res := fn.Signature.Results()
	switch len(out) {
	case 0:
		return nil, true
	case 1:
		return i.fromNative(out[0], res.At(0).Type()), true
	}
	tup := make(tuple, len(out))
	for k := range out {
		tup[k] = i.fromNative(out[k], res.At(k).Type())
	}
	return tup, true
}
