package sym

// Known-finding regions (DESIGN.md §3.8): predicates over harness inputs in a
// tiny s-expression language, turned into terms over the inputs of a path.

import (
	"fmt"
	"strconv"
	"strings"

	"verif/engine/smt"
)

type sexp struct {
	atom string
	str  bool
	list []*sexp
}

func parseSexp(s string) (*sexp, error) {
	p := &sexpParser{s: s}
	e, err := p.parse()
	if err != nil {
		return nil, err
	}
	p.skip()
	if p.i != len(p.s) {
		return nil, fmt.Errorf("trailing input in region %q", s)
	}
	return e, nil
}

type sexpParser struct {
	s string
	i int
}

func (p *sexpParser) skip() {
	for p.i < len(p.s) && strings.ContainsRune(" \t\n", rune(p.s[p.i])) {
		p.i++
	}
}

func (p *sexpParser) parse() (*sexp, error) {
	p.skip()
	if p.i >= len(p.s) {
		return nil, fmt.Errorf("unexpected end of region")
	}
	switch c := p.s[p.i]; {
	case c == '(':
		p.i++
		e := &sexp{}
		for {
			p.skip()
			if p.i >= len(p.s) {
				return nil, fmt.Errorf("unclosed ( in region")
			}
			if p.s[p.i] == ')' {
				p.i++
				return e, nil
			}
			sub, err := p.parse()
			if err != nil {
				return nil, err
			}
			e.list = append(e.list, sub)
		}
	case c == '"':
		j := p.i + 1
		for j < len(p.s) && p.s[j] != '"' {
			if p.s[j] == '\\' {
				j++
			}
			j++
		}
		if j >= len(p.s) {
			return nil, fmt.Errorf("unclosed string in region")
		}
		lit, err := strconv.Unquote(p.s[p.i : j+1])
		if err != nil {
			return nil, err
		}
		p.i = j + 1
		return &sexp{atom: lit, str: true}, nil
	default:
		j := p.i
		for j < len(p.s) && !strings.ContainsRune(" \t\n()", rune(p.s[j])) {
			j++
		}
		a := p.s[p.i:j]
		p.i = j
		return &sexp{atom: a}, nil
	}
}

// regionTerm builds the term of region e over the inputs of the current path.
// Predicates over inputs the path never created are false.
func (i *interpreter) regionTerm(e *sexp) *smt.Term {
	F := i.F
	if e.list == nil {
		switch e.atom {
		case "true":
			return F.True
		case "false":
			return F.False
		}
		panic(fmt.Sprintf("region: bare atom %q", e.atom))
	}
	if len(e.list) == 0 {
		return F.True
	}
	head := e.list[0].atom
	args := e.list[1:]
	find := func(name string) *inputRec {
		for _, in := range i.run.inputs {
			if in.Name == name {
				return in
			}
		}
		return nil
	}
	switch head {
	case "and":
		var ts []*smt.Term
		for _, a := range args {
			ts = append(ts, i.regionTerm(a))
		}
		return F.And(ts...)
	case "or":
		var ts []*smt.Term
		for _, a := range args {
			ts = append(ts, i.regionTerm(a))
		}
		return F.Or(ts...)
	case "not":
		return F.Not(i.regionTerm(args[0]))
	case "true":
		return F.True
	case "contains", "prefix", "suffix", "containsany", "eq", "ne", "lt", "le", "gt", "ge", "len-ge", "len-le":
		in := find(args[0].atom)
		if in == nil {
			return F.False
		}
		lit := args[1].atom
		switch in.Kind {
		case "string":
			switch head {
			case "contains":
				return i.L.contains(in.Str, lit)
			case "prefix":
				return i.L.hasPrefix(in.Str, lit)
			case "suffix":
				return i.L.hasSuffix(in.Str, lit)
			case "containsany":
				return i.L.containsAny(in.Str, lit)
			case "eq":
				return i.L.eqConst(in.Str, lit)
			case "ne":
				return F.Not(i.L.eqConst(in.Str, lit))
			case "len-ge", "len-le":
				n, _ := strconv.Atoi(lit)
				if head == "len-ge" {
					return F.Ule(F.BV(uint64(n), posW), i.L.length16(in.Str))
				}
				return F.Ule(i.L.length16(in.Str), F.BV(uint64(n), posW))
			}
		case "int":
			n, err := strconv.ParseInt(lit, 10, 64)
			if err != nil {
				panic(fmt.Sprintf("region: %q is not an integer", lit))
			}
			c := F.BV(uint64(n), in.Term.W)
			signed := kindSigned(in.IntK)
			lt := func(a, b *smt.Term) *smt.Term {
				if signed {
					return F.Slt(a, b)
				}
				return F.Ult(a, b)
			}
			switch head {
			case "eq":
				return F.Eq(in.Term, c)
			case "ne":
				return F.Not(F.Eq(in.Term, c))
			case "lt":
				return lt(in.Term, c)
			case "ge":
				return F.Not(lt(in.Term, c))
			case "gt":
				return lt(c, in.Term)
			case "le":
				return F.Not(lt(c, in.Term))
			}
		case "bool":
			switch head {
			case "eq":
				return F.Eq(in.Term, F.Bool(lit == "true"))
			case "ne":
				return F.Not(F.Eq(in.Term, F.Bool(lit == "true")))
			}
		}
	}
	panic(fmt.Sprintf("region: unknown predicate %q", head))
}

// Region is a named known-finding region for one (harness, assertion).
type Region struct {
	Name string
	Expr string
	expr *sexp
}

func NewRegion(name, expr string) (*Region, error) {
	e, err := parseSexp(expr)
	if err != nil {
		return nil, err
	}
	return &Region{Name: name, Expr: expr, expr: e}, nil
}
