package sym

import (
	"fmt"
	"go/types"
	"os"
	"path/filepath"
	"regexp"
	"sort"
	"strings"
	"sync"
	"time"

	"golang.org/x/tools/go/packages"
	"golang.org/x/tools/go/ssa"
	"golang.org/x/tools/go/ssa/ssautil"

	"verif/engine/smt"
)

// Config holds the bounds of one exploration.
type Config struct {
	Unwind          int // per-frame visits of one basic block
	MaxDepth        int // call depth
	MaxSteps        int // instructions per path
	SolverTimeoutMs int
	MapOrderFuncs   []string // functions in which map iteration order is arbitrary
	Solver          string
	Tier            string // quick | thorough
	PoolReuse       bool   // sync.Pool.Get may return any previously Put object (arbitrary choice)
	PoolLIFO        bool   // sync.Pool.Get returns the most recently Put object when there is one (deterministic reuse)
}

func DefaultConfig() Config {
	return Config{Unwind: 64, MaxDepth: 200, MaxSteps: 3_000_000, SolverTimeoutMs: 60000, Solver: "z3-new"}
}

// Program is the SSA form of /repo (plus overlay harness files) shared by all workers.
type Program struct {
	Prog     *ssa.Program
	Initial  []*packages.Package
	ByPath   map[string]*ssa.Package
	Harness  map[string]*ssa.Function // Verif* functions by name
	Stubs    map[string]*ssa.Function // redirected callee (fn.String()) -> harness stub
	LoadTime time.Duration

	rtypeMethods  methodSet
	errorMethods  methodSet
	reflectPkg    *ssa.Package
	structFieldT  types.Type
	runtimeErrStr types.Type
	once          sync.Once
}

var stubRe = regexp.MustCompile(`(?m)^//verif:stub\s+(\S+)\s*=>\s*(\S+)\s*$`)

// Load type-checks and builds SSA for the packages in patterns under dir with
// the overlay files injected. go/packages' "go list" child runs with
// GOTOOLCHAIN=auto so that /repo's own go directive is honoured.
func Load(dir string, patterns []string, overlay map[string][]byte) (*Program, error) {
	t0 := time.Now()
	env := append(os.Environ(), "GOTOOLCHAIN=auto", "GOFLAGS=-mod=mod", "GOPROXY=off")
	cfg := &packages.Config{
		Mode:    packages.LoadAllSyntax,
		Dir:     dir,
		Overlay: overlay,
		Env:     env,
	}
	initial, err := packages.Load(cfg, patterns...)
	if err != nil {
		return nil, err
	}
	var errs []string
	packages.Visit(initial, nil, func(p *packages.Package) {
		for _, e := range p.Errors {
			errs = append(errs, e.Error())
		}
	})
	if len(errs) > 0 {
		if len(errs) > 8 {
			errs = errs[:8]
		}
		return nil, fmt.Errorf("load errors: %s", strings.Join(errs, "; "))
	}
	prog, _ := ssautil.AllPackages(initial, ssa.InstantiateGenerics|ssa.SanityCheckFunctions&0)
	prog.Build()
	P := &Program{Prog: prog, Initial: initial, ByPath: map[string]*ssa.Package{}, Harness: map[string]*ssa.Function{}, Stubs: map[string]*ssa.Function{}}
	for _, p := range prog.AllPackages() {
		P.ByPath[p.Pkg.Path()] = p
	}
	// harness functions and stub directives
	for _, ip := range initial {
		sp := prog.Package(ip.Types)
		if sp == nil {
			continue
		}
		for name, m := range sp.Members {
			if fn, ok := m.(*ssa.Function); ok && strings.HasPrefix(name, "Verif") {
				P.Harness[name] = fn
			}
		}
	}
	for path, src := range overlay {
		var sp *ssa.Package
		for _, ip := range initial {
			for _, f := range ip.CompiledGoFiles {
				if filepath.Clean(f) == filepath.Clean(path) {
					sp = prog.Package(ip.Types)
				}
			}
		}
		if sp == nil {
			continue
		}
		for _, m := range stubRe.FindAllStringSubmatch(string(src), -1) {
			target, repl := m[1], m[2]
			fn := sp.Func(repl)
			if fn == nil {
				return nil, fmt.Errorf("stub directive: no function %s in %s", repl, sp.Pkg.Path())
			}
			P.Stubs[target] = fn
		}
	}
	if rt := prog.ImportedPackage("runtime"); rt != nil {
		if t := rt.Type("errorString"); t != nil {
			P.runtimeErrStr = t.Object().Type()
		}
	}
	if r := prog.ImportedPackage("reflect"); r != nil {
		P.structFieldT = r.Pkg.Scope().Lookup("StructField").Type()
	}
	P.initReflect()
	P.LoadTime = time.Since(t0)
	return P, nil
}

func (P *Program) HarnessNames(prefix string) []string {
	var out []string
	for n := range P.Harness {
		if strings.HasPrefix(n, prefix) {
			out = append(out, n)
		}
	}
	sort.Strings(out)
	return out
}

// Stats counts solver and exploration work of one worker.
type Stats struct {
	Paths           int
	UnknownBranches int
	Sat, Unsat, Unk int
	SolverTime      time.Duration
}

// Worker owns a term factory and a solver process; it explores paths one at a time.
type Worker struct {
	P     *Program
	F     *smt.Factory
	S     *smt.Solver
	L     strLib
	Cfg   Config
	Stats Stats

	stubs        map[string]*ssa.Function
	mapOrder     map[string]bool
	onceGlobals  map[*ssa.Global]*value
	stdErrs      map[string]value
	FuncsEntered map[string]int
	CoversHit    map[string]bool
	Regions      map[string][]*Region // harness|assert -> regions
	Unsupported  map[string]int
}

func NewWorker(P *Program, cfg Config) (*Worker, error) {
	F := smt.NewFactory()
	S, err := smt.NewSolver(F, cfg.Solver, cfg.SolverTimeoutMs)
	if err != nil {
		return nil, err
	}
	if os.Getenv("VSYM_SMT_TRACE") != "" {
		S.Trace = os.Stderr
	}
	w := &Worker{P: P, F: F, S: S, L: strLib{F}, Cfg: cfg, stubs: P.Stubs, mapOrder: map[string]bool{},
		FuncsEntered: map[string]int{}, Unsupported: map[string]int{}, CoversHit: map[string]bool{}}
	for _, f := range cfg.MapOrderFuncs {
		w.mapOrder[f] = true
	}
	return w, nil
}

func (w *Worker) Close() { w.S.Close() }

var dumpDir = os.Getenv("VSYM_DUMP_DIR")
var dumpN int

func (w *Worker) check(assumps []*smt.Term) (smt.Result, smt.Model) {
	t0 := time.Now()
	r, m := w.S.Check(assumps)
	if dumpDir != "" {
		dumpN++
		os.WriteFile(fmt.Sprintf("%s/q%05d_%s_%dms.smt2", dumpDir, dumpN, r, time.Since(t0).Milliseconds()), []byte(w.F.Dump(assumps)), 0o644)
	}
	return r, m
}

func (w *Worker) mapOrderMatters(fn *ssa.Function) bool {
	if len(w.mapOrder) == 0 {
		return false
	}
	return w.mapOrder[fn.Name()] || w.mapOrder[fn.String()]
}

func (w *Worker) structFieldType() types.Type { return w.P.structFieldT }

var interpretablePrefixes = []string{
	"github.com/titpetric/vuego",
	"golang.org/x/net/html",
	// small pure-Go generic helpers a change to the repository may start using
	"slices",
	"maps",
	"cmp",
	"iter",
	"math/bits",
}

// std functions that are pure, small and independent of package state are
// interpreted from their SSA like repository code.
var interpretableStd = map[string]bool{
	"(*io/fs.PathError).Error":   true,
	"(*io/fs.PathError).Unwrap":  true,
	"(*io/fs.PathError).Timeout": true,
	"(io/fs.FileMode).IsDir":     true,
	"(io/fs.FileMode).IsRegular": true,
	"(io/fs.FileMode).Type":      true,
	"(io/fs.FileMode).Perm":      true,
	"(time.Time).IsZero":         true,
	"(time.Time).Equal":          true,
	"(time.Time).After":          true,
	"(time.Time).Before":         true,
	"(time.Time).Compare":        true,
	"(time.Time).Unix":           true,
	"(*time.Time).sec":           true,
	"(*time.Time).nsec":          true,
	"(*time.Time).unixSec":       true,
	"(*time.Time).setLoc":        true,
	"(*time.Time).stripMono":     true,
	"time.Unix":                  true,
	"time.unixTime":              true,
	"(time.Time).Sub":            true,
	"(time.Time).Add":            true,
	"time.subMono":               true,
	"(time.Duration).Seconds":    false,
}

func (w *Worker) interpretable(fn *ssa.Function) bool {
	if interpretableStd[fn.String()] {
		return true
	}
	pkg := fn.Pkg
	if pkg == nil {
		if o := fn.Origin(); o != nil {
			pkg = o.Pkg
		}
	}
	if pkg == nil {
		// synthetic wrappers/bound methods: decide by receiver/object package
		if obj := fn.Object(); obj != nil && obj.Pkg() != nil {
			return pathInterpretable(obj.Pkg().Path())
		}
		return true
	}
	return pathInterpretable(pkg.Pkg.Path())
}

func pathInterpretable(p string) bool {
	for _, pre := range interpretablePrefixes {
		if p == pre || strings.HasPrefix(p, pre+"/") {
			return true
		}
	}
	return false
}
