package sym

import (
	"fmt"
	"html"
	"math/rand"
	"regexp"
	"strings"
	"testing"

	xhtml "golang.org/x/net/html"

	"verif/engine/smt"
)

// mkSym builds a symbolic string with independent guard and byte variables.
func mkSym(F *smt.Factory, name string, n int) *Str {
	s := make([]slot, n)
	for k := 0; k < n; k++ {
		s[k] = slot{F.BoolVar(fmt.Sprintf("%s.g%d", name, k)), F.BVVar(fmt.Sprintf("%s.b%d", name, k), 8)}
	}
	return &Str{s: s}
}

const alphabet = "a&<>\"';#lt gmpA\n\t{}|.=!x/<>\"\"&;34amp"

func randModel(r *rand.Rand, name string, n int) smt.Model {
	m := smt.Model{}
	for k := 0; k < n; k++ {
		if r.Intn(4) != 0 {
			m[fmt.Sprintf("%s.g%d", name, k)] = 1
		}
		m[fmt.Sprintf("%s.b%d", name, k)] = uint64(alphabet[r.Intn(len(alphabet))])
	}
	return m
}

func TestStrLibAgainstNative(t *testing.T) {
	F := smt.NewFactory()
	L := strLib{F}
	const N = 9
	s := mkSym(F, "s", N)
	r := rand.New(rand.NewSource(1))
	spaces := regexp.MustCompile(`\s+`)
	pats := []string{"&", "&#", "&lt;", "&amp;", "{{", "}}", "ab", "aa", "aab", " - ", "=", "==", "===", "a"}
	type boolOp struct {
		name string
		t    *smt.Term
		f    func(string) bool
	}
	type intOp struct {
		name string
		t    *smt.Term
		f    func(string) int
	}
	type strOp struct {
		name string
		t    *Str
		f    func(string) string
	}
	var bools []boolOp
	var ints []intOp
	var strs []strOp
	for _, p := range pats {
		p := p
		bools = append(bools,
			boolOp{"contains " + p, L.contains(s, p), func(x string) bool { return strings.Contains(x, p) }},
			boolOp{"hasPrefix " + p, L.hasPrefix(s, p), func(x string) bool { return strings.HasPrefix(x, p) }},
			boolOp{"hasSuffix " + p, L.hasSuffix(s, p), func(x string) bool { return strings.HasSuffix(x, p) }},
			boolOp{"eqConst " + p, L.eqConst(s, p), func(x string) bool { return x == p }},
		)
		ints = append(ints,
			intOp{"index " + p, L.index(s, p), func(x string) int { return strings.Index(x, p) }},
			intOp{"lastIndex " + p, L.lastIndex(s, p), func(x string) int { return strings.LastIndex(x, p) }},
			intOp{"count " + p, L.count(s, p), func(x string) int { return strings.Count(x, p) }},
		)
		strs = append(strs,
			strOp{"trimPrefix " + p, L.trimPrefix(s, p), func(x string) string { return strings.TrimPrefix(x, p) }},
			strOp{"trimSuffix " + p, L.trimSuffix(s, p), func(x string) string { return strings.TrimSuffix(x, p) }},
		)
	}
	bools = append(bools, boolOp{"containsAny", L.containsAny(s, "<>&\"'"), func(x string) bool { return strings.ContainsAny(x, "<>&\"'") }})
	to, tq := L.htmlShape(s)
	ints = append(ints,
		intOp{"tagOpens", F.Zext(to, 64), func(x string) int { n, _ := htmlShapeNative(x); return n }},
		intOp{"tagQuotes", F.Zext(tq, 64), func(x string) int { _, n := htmlShapeNative(x); return n }},
	)
	ints = append(ints,
		intOp{"indexAny", L.indexAny(s, "&'<>\"\r"), func(x string) int { return strings.IndexAny(x, "&'<>\"\r") }},
		intOp{"lastIndexAny", L.lastIndexAny(s, "a&"), func(x string) int { return strings.LastIndexAny(x, "a&") }},
		intOp{"len", L.length(s), func(x string) int { return len(x) }},
	)
	strs = append(strs,
		strOp{"trimSpace", L.trimSpace(s), strings.TrimSpace},
		strOp{"trim", L.trimSet(s, "'\"", true, true), func(x string) string { return strings.Trim(x, "'\"") }},
		strOp{"trimLeft", L.trimSet(s, "a ", true, false), func(x string) string { return strings.TrimLeft(x, "a ") }},
		strOp{"trimRight", L.trimSet(s, "\n", false, true), func(x string) string { return strings.TrimRight(x, "\n") }},
		strOp{"escape", L.mapBytes(s, stdHTMLEscape), html.EscapeString},
		strOp{"xescape", L.mapBytes(s, xnetHTMLEscape), xhtml.EscapeString},
		strOp{"lower", L.toLower(s), strings.ToLower},
		strOp{"upper", L.toUpper(s), strings.ToUpper},
		strOp{"replaceNL", L.replaceByte(s, '\n', " "), func(x string) string { return strings.ReplaceAll(x, "\n", " ") }},
		strOp{"unescapeRefs", L.unescapeRefs(s, basicRefs), func(x string) string {
			// longer spellings first: strings.Replacer prefers the earlier pair at the same position
			r := strings.NewReplacer("&amp;", "&", "&lt;", "<", "&gt;", ">", "&quot;", "\"", "&#34;", "\"", "&#39;", "'", "&#13;", "\r",
				"&amp", "&", "&lt", "<", "&gt", ">", "&quot", "\"")
			return r.Replace(x)
		}},
		strOp{"collapse", L.collapseSpaces(s), func(x string) string { return spaces.ReplaceAllString(x, " ") }},
		strOp{"slice1_4", L.slice(s, F.BV(1, posW), F.BV(4, posW)), func(x string) string {
			lo, hi := 1, 4
			if lo > len(x) {
				lo = len(x)
			}
			if hi > len(x) {
				hi = len(x)
			}
			return x[lo:hi]
		}},
	)
	for iter := 0; iter < 3000; iter++ {
		m := randModel(r, "s", N)
		memo := map[int]uint64{}
		x := L.evalStr(s, m, memo)
		for _, op := range bools {
			got := F.EvalMemo(op.t, m, memo) == 1
			if want := op.f(x); got != want {
				t.Fatalf("%s on %q: got %v want %v", op.name, x, got, want)
			}
		}
		for _, op := range ints {
			got := int(int64(F.EvalMemo(op.t, m, memo)))
			if want := op.f(x); got != want {
				t.Fatalf("%s on %q: got %v want %v", op.name, x, got, want)
			}
		}
		for _, op := range strs {
			got := L.evalStr(op.t, m, memo)
			if want := op.f(x); got != want {
				t.Fatalf("%s on %q: got %q want %q", op.name, x, got, want)
			}
		}
		// byteAt
		for p := 0; p < len(x); p++ {
			if got := byte(F.EvalMemo(L.byteAt(s, F.BV(uint64(p), posW)), m, memo)); got != x[p] {
				t.Fatalf("byteAt(%q,%d)=%q", x, p, got)
			}
		}
		// split on ','/'a'
		for _, sep := range []byte{'a', ';'} {
			want := strings.Split(x, string(sep))
			parts := L.splitByte(s, sep, len(want), false)
			for k := range want {
				if got := L.evalStr(parts[k], m, memo); got != want[k] {
					t.Fatalf("split(%q,%q)[%d]=%q want %q", x, sep, k, got, want[k])
				}
			}
			want2 := strings.SplitN(x, string(sep), 2)
			parts2 := L.splitByte(s, sep, len(want2), len(want) > 2)
			for k := range want2 {
				if got := L.evalStr(parts2[k], m, memo); got != want2[k] {
					t.Fatalf("splitN(%q,%q,2)[%d]=%q want %q", x, sep, k, got, want2[k])
				}
			}
		}
	}
	// two-string equality / less
	a, b := mkSym(F, "a", 4), mkSym(F, "b", 4)
	eq, lt := L.eq(a, b), L.less(a, b)
	for iter := 0; iter < 3000; iter++ {
		m := randModel(r, "a", 4)
		for k, v := range randModel(r, "b", 4) {
			m[k] = v
		}
		memo := map[int]uint64{}
		x, y := L.evalStr(a, m, memo), L.evalStr(b, m, memo)
		if got := F.EvalMemo(eq, m, memo) == 1; got != (x == y) {
			t.Fatalf("eq(%q,%q)=%v", x, y, got)
		}
		if got := F.EvalMemo(lt, m, memo) == 1; got != (x < y) {
			t.Fatalf("less(%q,%q)=%v", x, y, got)
		}
	}
}
