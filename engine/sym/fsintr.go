package sym

// io/fs helper functions re-expressed over the interface methods of the
// (interpreted) filesystem values, as the real ones are.

import (
	"go/token"
	"go/types"
	"path"
	"sort"
	"strings"
)

func init() {
	intrinsics["io/fs.ReadFile"] = inFsReadFile
	intrinsics["io/fs.Stat"] = inFsStat
	intrinsics["io/fs.ReadDir"] = inFsReadDir
	intrinsics["io/fs.Glob"] = inFsGlob
	intrinsics["io/fs.WalkDir"] = inFsWalkDir
	intrinsics["io/fs.ValidPath"] = func(fr *frame, a []value) value { return true }
}

func (i *interpreter) fsOpen(fr *frame, fsys iface, name value) (iface, iface) {
	if fsys.t == nil {
		panic(runtimeError("invalid memory address or nil pointer dereference"))
	}
	res := i.callMethod(fr, fsys, "Open", name).(tuple)
	return res[0].(iface), res[1].(iface)
}

func inFsReadFile(fr *frame, a []value) value {
	i := fr.i
	fsys := a[0].(iface)
	if fsys.t == nil {
		panic(runtimeError("invalid memory address or nil pointer dereference"))
	}
	if i.hasMethod(fsys.t, "ReadFile") {
		return i.callMethod(fr, fsys, "ReadFile", a[1])
	}
	f, err := i.fsOpen(fr, fsys, a[1])
	if err.t != nil {
		return tuple{[]value(nil), err}
	}
	var data []value
	for n := 0; n < 1<<16; n++ {
		buf := make([]value, 512)
		for k := range buf {
			buf[k] = byte(0)
		}
		r := i.callMethod(fr, f, "Read", buf).(tuple)
		cnt := int(asInt64(i.concretize(r[0])))
		data = append(data, buf[:cnt]...)
		if e := r[1].(iface); e.t != nil {
			i.callMethod(fr, f, "Close")
			if e.v == i.globalError("io.EOF").v {
				return tuple{data, iface{}}
			}
			return tuple{data, e}
		}
		if cnt == 0 {
			break
		}
	}
	i.callMethod(fr, f, "Close")
	return tuple{data, iface{}}
}

func inFsStat(fr *frame, a []value) value {
	i := fr.i
	fsys := a[0].(iface)
	if fsys.t == nil {
		panic(runtimeError("invalid memory address or nil pointer dereference"))
	}
	if i.hasMethod(fsys.t, "Stat") {
		return i.callMethod(fr, fsys, "Stat", a[1])
	}
	f, err := i.fsOpen(fr, fsys, a[1])
	if err.t != nil {
		return tuple{iface{}, err}
	}
	res := i.callMethod(fr, f, "Stat")
	i.callMethod(fr, f, "Close")
	return res
}

func inFsReadDir(fr *frame, a []value) value {
	i := fr.i
	fsys := a[0].(iface)
	if fsys.t == nil {
		panic(runtimeError("invalid memory address or nil pointer dereference"))
	}
	if i.hasMethod(fsys.t, "ReadDir") {
		return i.callMethod(fr, fsys, "ReadDir", a[1])
	}
	f, err := i.fsOpen(fr, fsys, a[1])
	if err.t != nil {
		return tuple{[]value(nil), err}
	}
	if !i.hasMethod(f.t, "ReadDir") {
		i.callMethod(fr, f, "Close")
		return tuple{[]value(nil), i.newError("readdir "+i.concStr(a[1])+": not implemented", iface{})}
	}
	res := i.callMethod(fr, f, "ReadDir", -1).(tuple)
	i.callMethod(fr, f, "Close")
	if res[0] != nil {
		ents := res[0].([]value)
		sort.SliceStable(ents, func(x, y int) bool {
			return i.concStr(i.callMethod(fr, ents[x].(iface), "Name")) < i.concStr(i.callMethod(fr, ents[y].(iface), "Name"))
		})
	}
	return res
}

func inFsGlob(fr *frame, a []value) value {
	i := fr.i
	fsys := a[0].(iface)
	if fsys.t != nil && i.hasMethod(fsys.t, "Glob") {
		return i.callMethod(fr, fsys, "Glob", a[1])
	}
	pattern := i.concStr(a[1])
	if _, err := path.Match(pattern, ""); err != nil {
		return tuple{[]value(nil), i.globalError("path.ErrBadPattern")}
	}
	out, bad := i.fsGlob(fr, fsys, pattern)
	if bad {
		return tuple{[]value(nil), i.globalError("path.ErrBadPattern")}
	}
	var vals []value
	for _, m := range out {
		vals = append(vals, m)
	}
	return tuple{vals, iface{}}
}

// fsGlob follows io/fs.Glob: a pattern without meta characters matches itself
// when it exists; otherwise the directory part is expanded first (it may
// contain meta characters itself) and the last element is matched against the
// sorted listing of every matching directory.
func (i *interpreter) fsGlob(fr *frame, fsys iface, pattern string) (matches []string, bad bool) {
	hasMeta := func(p string) bool { return strings.ContainsAny(p, `*?[\`) }
	if !hasMeta(pattern) {
		st := inFsStat(fr, []value{fsys, pattern}).(tuple)
		if st[1].(iface).t != nil {
			return nil, false
		}
		return []string{pattern}, false
	}
	dir, file := path.Split(pattern)
	dir = cleanGlobDir(dir)
	globDir := func(d string) {
		res := inFsReadDir(fr, []value{fsys, d}).(tuple)
		if res[1].(iface).t != nil || res[0] == nil {
			return
		}
		for _, e := range res[0].([]value) {
			n := i.concStr(i.callMethod(fr, e.(iface), "Name"))
			if ok, _ := path.Match(file, n); ok {
				matches = append(matches, path.Join(d, n))
			}
		}
	}
	if !hasMeta(dir) {
		globDir(dir)
		return matches, false
	}
	if dir == pattern {
		return nil, true
	}
	dirs, bad := i.fsGlob(fr, fsys, dir)
	if bad {
		return nil, true
	}
	for _, d := range dirs {
		globDir(d)
	}
	return matches, false
}

func cleanGlobDir(dir string) string {
	if dir == "" {
		return "."
	}
	return dir[:len(dir)-1]
}

func inFsWalkDir(fr *frame, a []value) value {
	i := fr.i
	fsys := a[0].(iface)
	root := i.concStr(a[1])
	fn := a[2]
	st := inFsStat(fr, []value{fsys, root}).(tuple)
	var walk func(p string, d iface) iface
	callFn := func(p string, d iface, err iface) iface {
		return call(i, fr, token.NoPos, fn, []value{p, d, err}).(iface)
	}
	skipDir := i.globalError("io/fs.SkipDir")
	skipAll := i.globalError("io/fs.SkipAll")
	walk = func(p string, d iface) iface {
		if e := callFn(p, d, iface{}); e.t != nil {
			return e
		}
		if d.t == nil {
			return iface{}
		}
		isDir := i.callMethod(fr, d, "IsDir")
		if b, _ := isDir.(bool); !b {
			return iface{}
		}
		res := inFsReadDir(fr, []value{fsys, p}).(tuple)
		if e := res[1].(iface); e.t != nil {
			if e2 := callFn(p, d, e); e2.t != nil {
				return e2
			}
		}
		if res[0] == nil {
			return iface{}
		}
		for _, ent := range res[0].([]value) {
			n := i.concStr(i.callMethod(fr, ent.(iface), "Name"))
			if e := walk(path.Join(p, n), ent.(iface)); e.t != nil {
				if e.v == skipDir.v {
					continue
				}
				return e
			}
		}
		return iface{}
	}
	var e iface
	if se := st[1].(iface); se.t != nil {
		e = callFn(root, iface{}, se)
	} else {
		// fs.FileInfoToDirEntry: wrap the FileInfo in a DirEntry-like adapter is
		// not available; harness file infos implement both interfaces.
		e = walk(root, st[0].(iface))
	}
	if e.t != nil && (e.v == skipDir.v || e.v == skipAll.v) {
		return iface{}
	}
	return e
}

var _ = types.Typ
