package sym

// Path exploration by re-execution (DESIGN.md A.2): a run follows a decision
// vector; at the first undecided symbolic branch the side the current model
// takes is followed and the other side is queued if the solver finds it
// feasible. The heap therefore stays plain Go objects.

import (
	"fmt"
	"go/types"
	"os"
	"sort"
	"strings"

	"verif/engine/smt"
)

// Dec is one decision of a path: a branch outcome, or (IsVal) the outcome of
// testing "term == V" during concretisation.
type Dec struct {
	B     bool   `json:"b"`
	V     uint64 `json:"v,omitempty"`
	IsVal bool   `json:"isval,omitempty"`
}

// PathItem is a queued path: its decision prefix and a model of that prefix.
type PathItem struct {
	Decs  []Dec
	Model smt.Model
}

// stop is the control panic that ends a path.
type stop struct {
	kind string // violation, unwind, steps, infeasible, unsupported, done
	id   string
	msg  string
}

type inputRec struct {
	Name  string
	Kind  string // string, int, bool
	Str   *Str
	Term  *smt.Term
	IntK  types.BasicKind
	MaxLn int
}

// Outcome describes how one explored path ended.
type Outcome struct {
	Kind     string         `json:"kind"` // ok, violation, panic, unwind, steps, infeasible, unsupported
	ID       string         `json:"id,omitempty"`
	Msg      string         `json:"msg,omitempty"`
	Inputs   map[string]any `json:"inputs,omitempty"`
	Notes    map[string]any `json:"notes,omitempty"`
	Covers   []string       `json:"covers,omitempty"`
	Branches int            `json:"branches"`
	Steps    int            `json:"steps"`
	Decs     []Dec          `json:"-"`
	Known    string         `json:"known,omitempty"` // name of the known-finding region that matched
	Stack    []string       `json:"stack,omitempty"`
}

type run struct {
	decs       []Dec
	k          int
	pc         []*smt.Term
	model      smt.Model
	startModel smt.Model
	memo       map[int]uint64
	live       bool
	forks      []PathItem
	inputs     []*inputRec
	names      map[string]int
	notes      map[string]any
	covers     map[string]bool
	nbranch    int
	steps      int
	unknowns   int
	assumes    []string
	pcSet      map[int]bool
}

func (i *interpreter) addPC(c *smt.Term) {
	if c.IsTrue() {
		return
	}
	r := i.run
	r.pc = append(r.pc, c)
	if r.pcSet == nil {
		r.pcSet = map[int]bool{}
	}
	r.pcSet[c.ID] = true
	if c.Op == smt.OpAnd {
		for _, a := range c.Args {
			r.pcSet[a.ID] = true
		}
	}
}

// implied reports a syntactic consequence of the path condition: +1 when c is
// a conjunct of it, -1 when its negation is, 0 otherwise.
func (i *interpreter) implied(c *smt.Term) int {
	r := i.run
	if r.pcSet[c.ID] {
		return 1
	}
	if r.pcSet[i.F.Not(c).ID] {
		return -1
	}
	return 0
}

func (i *interpreter) evalBool(c *smt.Term) bool {
	return i.F.EvalMemo(c, i.run.model, i.run.memo) == 1
}

func (i *interpreter) goLive() {
	r := i.run
	if !r.live && r.k >= len(r.decs) {
		r.live = true
		if r.startModel != nil {
			r.model = r.startModel
		} else {
			r.model = smt.Model{}
		}
		r.memo = map[int]uint64{}
	}
}

func (i *interpreter) cloneDecs(extra Dec) []Dec {
	r := i.run
	out := make([]Dec, len(r.decs)+1)
	copy(out, r.decs)
	out[len(r.decs)] = extra
	return out
}

// branch decides a symbolic condition, forking the path when both sides are
// feasible under the current path condition.
func (i *interpreter) branch(c *smt.Term) bool {
	if c.IsConst() {
		return c.Val == 1
	}
	r := i.run
	F := i.F
	switch i.implied(c) {
	case 1:
		return true
	case -1:
		return false
	}
	i.goLive()
	if !r.live {
		d := r.decs[r.k]
		r.k++
		if d.IsVal {
			panic(stop{kind: "unsupported", msg: "decision vector out of sync (expected branch)"})
		}
		if d.B {
			i.addPC(c)
		} else {
			i.addPC(F.Not(c))
		}
		i.goLive()
		return d.B
	}
	r.nbranch++
	v := i.evalBool(c)
	var other *smt.Term
	if v {
		other = F.Not(c)
	} else {
		other = c
	}
	res, m := i.w.check(append(append([]*smt.Term{}, r.pc...), other))
	if traceBranches {
		pos := ""
		if i.top != nil {
			pos = i.top.fn.Name()
		}
		fmt.Fprintf(os.Stderr, "branch #%d in %s: model->%v other=%v\n", r.nbranch, pos, v, res)
	}
	switch res {
	case smt.Sat:
		r.forks = append(r.forks, PathItem{Decs: i.cloneDecs(Dec{B: !v}), Model: m})
	case smt.Unknown:
		r.unknowns++
		i.w.Stats.UnknownBranches++
	}
	r.decs = append(r.decs, Dec{B: v})
	r.k++
	if v {
		i.addPC(c)
	} else {
		i.addPC(F.Not(c))
	}
	return v
}

// assume adds c to the path condition; the path ends silently if that makes
// it infeasible.
func (i *interpreter) assume(c *smt.Term, why string) {
	if c.IsTrue() {
		return
	}
	r := i.run
	if c.IsFalse() {
		panic(stop{kind: "infeasible", msg: why})
	}
	i.goLive()
	i.addPC(c)
	if !r.live {
		return
	}
	if i.evalBool(c) {
		return
	}
	res, m := i.w.check(r.pc)
	switch res {
	case smt.Sat:
		r.model = m
		r.memo = map[int]uint64{}
	case smt.Unsat:
		panic(stop{kind: "infeasible", msg: why})
	default:
		r.unknowns++
		i.w.Stats.UnknownBranches++
		panic(stop{kind: "infeasible", msg: "solver unknown on assume: " + why})
	}
}

const maxConcretize = 64

// concretizeTerm fixes the value of a bit-vector term by forking over the
// values the solver finds feasible.
func (i *interpreter) concretizeTerm(t *smt.Term) uint64 {
	if t.IsConst() {
		return t.Val
	}
	r := i.run
	F := i.F
	tries := 0
	for {
		i.goLive()
		tries++
		if tries > maxConcretize {
			panic(stop{kind: "unsupported", msg: "concretisation fan-out exceeds limit"})
		}
		if !r.live {
			d := r.decs[r.k]
			r.k++
			if !d.IsVal {
				panic(stop{kind: "unsupported", msg: "decision vector out of sync (expected value)"})
			}
			eq := F.Eq(t, F.BV(d.V, t.W))
			if d.B {
				i.addPC(eq)
				i.goLive()
				return d.V
			}
			i.addPC(F.Not(eq))
			continue
		}
		r.nbranch++
		v := F.EvalMemo(t, r.model, r.memo)
		eq := F.Eq(t, F.BV(v, t.W))
		res, m := i.w.check(append(append([]*smt.Term{}, r.pc...), F.Not(eq)))
		switch res {
		case smt.Sat:
			r.forks = append(r.forks, PathItem{Decs: i.cloneDecs(Dec{IsVal: true, V: v, B: false}), Model: m})
		case smt.Unknown:
			r.unknowns++
			i.w.Stats.UnknownBranches++
		}
		r.decs = append(r.decs, Dec{IsVal: true, V: v, B: true})
		r.k++
		i.addPC(eq)
		return v
	}
}

// concretize turns a symbolic scalar into a concrete Go value (forking).
func (i *interpreter) concretize(v value) value {
	switch x := v.(type) {
	case symBool:
		return i.branch(x.t)
	case symInt:
		u := i.concretizeTerm(x.t)
		w := x.t.W
		if kindSigned(x.k) && w < 64 && u&(1<<uint(w-1)) != 0 {
			u |= ^uint64(0) << uint(w)
		}
		return mkInt(x.k, u)
	case symStr:
		return i.concretizeStr(x.Str)
	case symBytes:
		s := i.concretizeStr(x.Str)
		return i.strToBytes(s)
	}
	return v
}

// determined returns the unique value of a symbolic string under the current
// path condition, if the solver shows there is only one (no forking).
func (i *interpreter) determinedStr(s *Str) (string, bool) {
	if c, ok := i.L.concrete(s); ok {
		return c, true
	}
	r := i.run
	i.goLive()
	if !r.live {
		// During replay we cannot consult the model; fall back to a solver query.
		res, m := i.w.check(r.pc)
		if res != smt.Sat {
			return "", false
		}
		cand := i.L.evalStr(s, m, map[int]uint64{})
		res2, _ := i.w.check(append(append([]*smt.Term{}, r.pc...), i.F.Not(i.L.eqConst(s, cand))))
		return cand, res2 == smt.Unsat
	}
	cand := i.L.evalStr(s, r.model, r.memo)
	res, _ := i.w.check(append(append([]*smt.Term{}, r.pc...), i.F.Not(i.L.eqConst(s, cand))))
	return cand, res == smt.Unsat
}

// concretizeStr fixes a string: first by a uniqueness check, otherwise by
// forking on (s == candidate).
func (i *interpreter) concretizeStr(s *Str) string {
	if c, ok := i.L.concrete(s); ok {
		return c
	}
	r := i.run
	for tries := 0; tries < maxConcretize; tries++ {
		i.goLive()
		var cand string
		if r.live {
			cand = i.L.evalStr(s, r.model, r.memo)
		} else {
			// replay: the candidate is the one recorded implicitly by order; we
			// need determinism, so derive the candidate from a solver model of
			// the current prefix is not possible. Instead strings are
			// concretised slot by slot below.
			return i.concretizeStrSlots(s)
		}
		_ = cand
		return i.concretizeStrSlots(s)
	}
	panic(stop{kind: "unsupported", msg: "string concretisation fan-out exceeds limit"})
}

// concretizeStrSlots fixes every guard and byte in turn (deterministic under
// replay because each step is an ordinary decision).
func (i *interpreter) concretizeStrSlots(s *Str) string {
	buf := make([]byte, 0, len(s.s))
	for _, sl := range s.s {
		if !i.branch(sl.g) {
			continue
		}
		buf = append(buf, byte(i.concretizeTerm(sl.b)))
	}
	return string(buf)
}

// ---- inputs -------------------------------------------------------------------

func (i *interpreter) uniqueName(name string) string {
	r := i.run
	if r.names == nil {
		r.names = map[string]int{}
	}
	r.names[name]++
	if n := r.names[name]; n > 1 {
		return fmt.Sprintf("%s#%d", name, n)
	}
	return name
}

// newInputString creates an arbitrary string of length <= maxLen whose bytes
// are < 0x80 and, when alphabet != "", drawn from alphabet.
func (i *interpreter) newInputString(name string, maxLen int, alphabet string) value {
	F := i.F
	name = i.uniqueName(name)
	lenW := 8
	ln := F.BVVar(name+".len", lenW)
	i.assume(F.Ule(ln, F.BV(uint64(maxLen), lenW)), "len("+name+") <= bound")
	slots := make([]slot, maxLen)
	for k := 0; k < maxLen; k++ {
		b := F.BVVar(fmt.Sprintf("%s.%d", name, k), 8)
		g := F.Ult(F.BV(uint64(k), lenW), ln)
		if alphabet != "" {
			i.assume(F.Or(F.Not(g), i.L.inSet(b, alphabet)), name+" over alphabet")
		} else {
			i.assume(F.Ult(b, F.BV(0x80, 8)), name+" is 7-bit ASCII")
		}
		slots[k] = slot{g, b}
	}
	s := &Str{s: slots}
	i.run.inputs = append(i.run.inputs, &inputRec{Name: name, Kind: "string", Str: s, MaxLn: maxLen})
	return i.mkStr(s)
}

func (i *interpreter) newInputInt(name string, k types.BasicKind, lo, hi int64, bounded bool) value {
	F := i.F
	name = i.uniqueName(name)
	w := kindWidth(k)
	t := F.BVVar(name, w)
	if bounded {
		if kindSigned(k) {
			i.assume(F.And(F.Sle(F.BV(uint64(lo), w), t), F.Sle(t, F.BV(uint64(hi), w))), name+" in range")
		} else {
			i.assume(F.And(F.Ule(F.BV(uint64(lo), w), t), F.Ule(t, F.BV(uint64(hi), w))), name+" in range")
		}
	}
	i.run.inputs = append(i.run.inputs, &inputRec{Name: name, Kind: "int", Term: t, IntK: k})
	return i.mkIntT(t, k)
}

func (i *interpreter) newInputBool(name string) value {
	name = i.uniqueName(name)
	t := i.F.BoolVar(name)
	i.run.inputs = append(i.run.inputs, &inputRec{Name: name, Kind: "bool", Term: t})
	return i.mkBool(t)
}

// decodeInputs renders the harness inputs under a model.
func (i *interpreter) decodeInputs(m smt.Model) map[string]any {
	out := map[string]any{}
	memo := map[int]uint64{}
	for _, in := range i.run.inputs {
		switch in.Kind {
		case "string":
			out[in.Name] = i.L.evalStr(in.Str, m, memo)
		case "int":
			u := i.F.EvalMemo(in.Term, m, memo)
			w := in.Term.W
			if kindSigned(in.IntK) {
				if w < 64 && u&(1<<uint(w-1)) != 0 {
					u |= ^uint64(0) << uint(w)
				}
				out[in.Name] = int64(u)
			} else {
				out[in.Name] = u
			}
		case "bool":
			out[in.Name] = i.F.EvalMemo(in.Term, m, memo) == 1
		}
	}
	return out
}

// currentModel returns a model of the current path condition.
func (i *interpreter) currentModel() smt.Model {
	r := i.run
	i.goLive()
	if r.live {
		// the running model satisfies pc by construction
		return r.model
	}
	res, m := i.w.check(r.pc)
	if res == smt.Sat {
		return m
	}
	return smt.Model{}
}

func describeValue(v value) any {
	switch x := v.(type) {
	case nil:
		return nil
	case bool, int, int8, int16, int32, int64, uint, uint8, uint16, uint32, uint64, string, float32, float64:
		return x
	case iface:
		if x.t == nil {
			return nil
		}
		return describeValue(x.v)
	case []value:
		out := make([]any, len(x))
		for k, e := range x {
			out[k] = describeValue(e)
		}
		return out
	}
	return toString(v)
}

func sortedKeys(m map[string]bool) []string {
	out := make([]string, 0, len(m))
	for k := range m {
		out = append(out, k)
	}
	sort.Strings(out)
	return out
}

func shortStack(fr *frame) []string {
	var out []string
	for f := fr; f != nil && len(out) < 12; f = f.caller {
		out = append(out, strings.TrimPrefix(f.fn.String(), "github.com/titpetric/vuego"))
	}
	return out
}

var traceBranches = os.Getenv("VSYM_TRACE") != ""
