package sym

// fmt.Sprint / Sprintf / Errorf over symbolic values.

import (
	"fmt"
	"go/types"
	"sort"
	"strconv"
	"strings"

	"verif/engine/smt"
)

// fmtInt renders an integer in decimal. Symbolic integers are rendered
// through a bounded decimal expansion (|n| < 10^4 by stated assumption).
func (i *interpreter) fmtInt(v value) value {
	s, ok := v.(symInt)
	if !ok {
		if kindSignedV(v) {
			return strconv.FormatInt(asInt64(v), 10)
		}
		return strconv.FormatUint(uint64(asInt64(v)), 10)
	}
	F := i.F
	t64 := F.Resize(s.t, 64, kindSigned(s.k))
	signed := kindSigned(s.k)
	var neg *smt.Term = F.False
	abs := t64
	if signed {
		neg = F.Slt(t64, F.BV(0, 64))
		abs = F.Ite(neg, F.Neg(t64), t64)
	}
	i.assume(F.Ult(abs, F.BV(10000, 64)), "formatted symbolic integers have |n| < 10^4")
	a := F.Extract(abs, 15, 0)
	d := make([]*smt.Term, 4) // d[0] = thousands
	rem := a
	for k, p := range []uint64{1000, 100, 10, 1} {
		d[k] = F.Udiv(rem, F.BV(p, 16))
		rem = F.Urem(rem, F.BV(p, 16))
	}
	var slots []slot
	slots = append(slots, slot{neg, F.BV('-', 8)})
	nonzeroSoFar := F.False
	for k := 0; k < 4; k++ {
		nz := F.Not(F.Eq(d[k], F.BV(0, 16)))
		nonzeroSoFar = F.Or(nonzeroSoFar, nz)
		g := nonzeroSoFar
		if k == 3 {
			g = F.True
		}
		slots = append(slots, slot{g, F.Add(F.Extract(d[k], 7, 0), F.BV('0', 8))})
	}
	return i.mkStr(&Str{s: slots})
}

func kindSignedV(v value) bool {
	k, _, ok := intKind(v)
	return ok && kindSigned(k)
}

func (i *interpreter) fmtBool(v value) value {
	if b, ok := v.(bool); ok {
		return strconv.FormatBool(b)
	}
	F := i.F
	c := v.(symBool).t
	pick := func(a, b byte) *smt.Term { return F.Ite(c, F.BV(uint64(a), 8), F.BV(uint64(b), 8)) }
	return i.mkStr(&Str{s: []slot{
		{F.True, pick('t', 'f')}, {F.True, pick('r', 'a')}, {F.True, pick('u', 'l')}, {F.True, pick('e', 's')}, {F.Not(c), F.BV('e', 8)},
	}})
}

// fmtValue renders v (of static/dynamic type t) the way fmt's %v does.
func (i *interpreter) fmtValue(fr *frame, v value, t types.Type, verb byte, depth int) value {
	if it, ok := v.(iface); ok {
		if it.t == nil {
			if verb == 's' {
				return "%!s(<nil>)"
			}
			return "<nil>"
		}
		// error / Stringer
		if msg, _, ok := errParts(it); ok && depth == 0 || (ok && verb != 'd') {
			_ = msg
		}
		if it.t == errorType {
			msg, _, _ := errParts(it)
			return msg
		}
		if verb != 'd' && verb != 'T' {
			if i.hasMethod(it.t, "Error") {
				return i.fmtCallMethod(fr, it, "Error", verb)
			}
			if i.hasMethod(it.t, "String") {
				return i.fmtCallMethod(fr, it, "String", verb)
			}
		}
		return i.fmtValue(fr, it.v, it.t, verb, depth)
	}
	switch x := v.(type) {
	case string, symStr:
		if verb == 'q' {
			return strconv.Quote(i.concStr(x))
		}
		if verb == 'd' {
			return "%!d(string=" + i.concStr(x) + ")"
		}
		return x
	case bool, symBool:
		if verb == 's' || verb == 'd' || verb == 'q' {
			return i.concatV(i.concatV("%!"+string(verb)+"(bool=", i.fmtBool(x)), ")")
		}
		return i.fmtBool(x)
	case symInt:
		if verb == 's' {
			return i.concatV(i.concatV("%!s("+typeString(t)+"=", i.fmtInt(x)), ")")
		}
		return i.fmtInt(x)
	case int, int8, int16, int32, int64, uint, uint8, uint16, uint32, uint64, uintptr:
		if verb == 's' {
			return fmt.Sprintf("%s", x)
		}
		if verb == 'q' {
			return strconv.QuoteRune(rune(asInt64(x)))
		}
		if verb == 'x' {
			return strconv.FormatInt(asInt64(x), 16)
		}
		if verb == 'c' {
			return string(rune(asInt64(x)))
		}
		return i.fmtInt(x)
	case float64:
		if verb == 'f' {
			return strconv.FormatFloat(x, 'f', 6, 64)
		}
		if verb == 's' || verb == 'd' || verb == 'q' {
			return fmt.Sprintf("%"+string(verb), x)
		}
		return fmt.Sprint(x)
	case float32:
		if verb == 's' || verb == 'd' || verb == 'q' {
			return fmt.Sprintf("%"+string(verb), x)
		}
		return fmt.Sprint(x)
	case nil:
		if t != nil {
			switch t.Underlying().(type) {
			case *types.Slice:
				return "[]"
			}
		}
		return "<nil>"
	case []value:
		var parts []value
		var et types.Type
		if t != nil {
			if st, ok := t.Underlying().(*types.Slice); ok {
				et = st.Elem()
			}
		}
		if et != nil {
			if b, ok := et.Underlying().(*types.Basic); ok && b.Kind() == types.Uint8 && (verb == 's') {
				return i.mkStr(i.bytesToStr(x))
			}
		}
		for _, e := range x {
			parts = append(parts, i.fmtValue(fr, e, et, verb, depth+1))
		}
		return i.joinBracket("[", parts, " ", "]")
	case symBytes:
		if verb == 's' {
			return i.mkStr(x.Str)
		}
		panic(stop{kind: "unsupported", msg: "fmt %v of symbolic-length []byte"})
	case array:
		var parts []value
		var et types.Type
		if t != nil {
			et = t.Underlying().(*types.Array).Elem()
		}
		for _, e := range x {
			parts = append(parts, i.fmtValue(fr, e, et, verb, depth+1))
		}
		return i.joinBracket("[", parts, " ", "]")
	case *smap:
		if x == nil {
			return "map[]"
		}
		var kt, vt types.Type
		if t != nil {
			mt := t.Underlying().(*types.Map)
			kt, vt = mt.Key(), mt.Elem()
		}
		type kv struct {
			k string
			v value
		}
		var ents []kv
		for _, e := range x.ents {
			ks := i.concStr(i.fmtValue(fr, e.k, kt, 'v', depth+1))
			ents = append(ents, kv{ks, e.v})
		}
		sort.Slice(ents, func(a, b int) bool { return ents[a].k < ents[b].k })
		var parts []value
		for _, e := range ents {
			parts = append(parts, i.concatV(e.k+":", i.fmtValue(fr, e.v, vt, verb, depth+1)))
		}
		return i.joinBracket("map[", parts, " ", "]")
	case structure:
		var parts []value
		var st *types.Struct
		if t != nil {
			st, _ = t.Underlying().(*types.Struct)
		}
		for k, e := range x {
			var ft types.Type
			if st != nil && k < st.NumFields() {
				ft = st.Field(k).Type()
			}
			parts = append(parts, i.fmtValue(fr, e, ft, verb, depth+1))
		}
		return i.joinBracket("{", parts, " ", "}")
	case *value:
		if x == nil {
			return "<nil>"
		}
		if depth == 0 && t != nil {
			if pt, ok := t.Underlying().(*types.Pointer); ok {
				if _, isStruct := pt.Elem().Underlying().(*types.Struct); isStruct {
					return i.concatV("&", i.fmtValue(fr, *x, pt.Elem(), verb, depth+1))
				}
			}
		}
		return "0xc000010000"
	case rtype:
		return rtypeString(x)
	}
	panic(stop{kind: "unsupported", msg: fmt.Sprintf("fmt of %T", v)})
}

func (i *interpreter) joinBracket(open string, parts []value, sep, close string) value {
	var res value = open
	for k, p := range parts {
		if k > 0 {
			res = i.concatV(res, sep)
		}
		res = i.concatV(res, p)
	}
	return i.concatV(res, close)
}

func typeString(t types.Type) string {
	if t == nil {
		return "<nil>"
	}
	return types.TypeString(t, func(p *types.Package) string { return p.Name() })
}

func inFmtSprintSep(fr *frame, args []value, always bool) value {
	i := fr.i
	var res value = ""
	prevStr := false
	for k, a := range args {
		it := a.(iface)
		isStr := false
		if it.t != nil {
			if b, ok := it.t.Underlying().(*types.Basic); ok && b.Info()&types.IsString != 0 {
				isStr = true
			}
		}
		if k > 0 && (always || (!isStr && !prevStr)) {
			res = i.concatV(res, " ")
		}
		res = i.concatV(res, i.fmtValue(fr, it, nil, 'v', 0))
		prevStr = isStr
	}
	return res
}

func inFmtSprint(fr *frame, a []value) value {
	var args []value
	if a[0] != nil {
		args = a[0].([]value)
	}
	return inFmtSprintSep(fr, args, false)
}

// sprintf implements the verbs the code base uses: %s %v %d %q %w %t %T %f %x %c %%.
func (i *interpreter) sprintf(fr *frame, format string, args []value) (value, iface) {
	var res value = ""
	var wrapped iface
	ai := 0
	for p := 0; p < len(format); {
		c := format[p]
		if c != '%' {
			q := strings.IndexByte(format[p:], '%')
			if q < 0 {
				q = len(format) - p
			}
			res = i.concatV(res, format[p:p+q])
			p += q
			continue
		}
		p++
		if p >= len(format) {
			res = i.concatV(res, "%!(NOVERB)")
			break
		}
		// flags / width (ignored except for recognising them)
		start := p
		for p < len(format) && strings.IndexByte("+-# 0123456789.", format[p]) >= 0 {
			p++
		}
		flags := format[start:p]
		if p >= len(format) {
			res = i.concatV(res, "%!(NOVERB)")
			break
		}
		verb := format[p]
		p++
		if verb == '%' {
			res = i.concatV(res, "%")
			continue
		}
		if ai >= len(args) {
			res = i.concatV(res, "%!"+string(verb)+"(MISSING)")
			continue
		}
		arg := args[ai].(iface)
		ai++
		switch verb {
		case 'T':
			res = i.concatV(res, typeString(arg.t))
		case 'w':
			wrapped = arg
			res = i.concatV(res, i.fmtValue(fr, arg, nil, 'v', 0))
		case 's', 'v', 'd', 'q', 't', 'x', 'c':
			if flags != "" && flags != "+" && flags != "#" {
				// width/precision: only for concrete operands
				native := describeValue(arg.v)
				res = i.concatV(res, fmt.Sprintf("%"+flags+string(verb), native))
			} else {
				res = i.concatV(res, i.fmtValue(fr, arg, nil, verb, 0))
			}
		case 'f', 'g', 'e':
			native := describeValue(arg.v)
			res = i.concatV(res, fmt.Sprintf("%"+flags+string(verb), native))
		default:
			panic(stop{kind: "unsupported", msg: "fmt verb %" + string(verb)})
		}
	}
	if ai < len(args) {
		res = i.concatV(res, "%!(EXTRA ")
		for k := ai; k < len(args); k++ {
			it := args[k].(iface)
			if k > ai {
				res = i.concatV(res, ", ")
			}
			res = i.concatV(res, typeString(it.t)+"=")
			res = i.concatV(res, i.fmtValue(fr, it, nil, 'v', 0))
		}
		res = i.concatV(res, ")")
	}
	return res, wrapped
}

func inFmtSprintf(fr *frame, a []value) value {
	var args []value
	if a[1] != nil {
		args = a[1].([]value)
	}
	s, _ := fr.i.sprintf(fr, fr.i.concStr(a[0]), args)
	return s
}

func inFmtErrorf(fr *frame, a []value) value {
	var args []value
	if a[1] != nil {
		args = a[1].([]value)
	}
	s, w := fr.i.sprintf(fr, fr.i.concStr(a[0]), args)
	return fr.i.newError(s, w)
}

func inFmtFprintf(fr *frame, a []value) value {
	var args []value
	if a[2] != nil {
		args = a[2].([]value)
	}
	s, _ := fr.i.sprintf(fr, fr.i.concStr(a[1]), args)
	n, err := fr.i.writeTo(fr, a[0].(iface), s)
	return tuple{n, err}
}

func inFmtFprint(fr *frame, a []value) value {
	var args []value
	if a[1] != nil {
		args = a[1].([]value)
	}
	s := inFmtSprintSep(fr, args, false)
	n, err := fr.i.writeTo(fr, a[0].(iface), s)
	return tuple{n, err}
}

// fmtCallMethod calls an Error / String method the way package fmt does:
// a panic inside the method is caught (fmt's catchPanic); a nil pointer
// receiver prints as <nil>, anything else as %!v(PANIC=String method: ...).
func (i *interpreter) fmtCallMethod(fr *frame, it iface, name string, verb byte) (res value) {
	depth, top := i.depth, i.top
	defer func() {
		p := recover()
		if p == nil {
			return
		}
		var msg string
		switch p := p.(type) {
		case targetPanic:
			msg = i.panicString(p.v)
		case runtimeError:
			msg = p.Error()
		default:
			panic(p) // engine control flow (bounds, unsupported, infeasible)
		}
		i.depth, i.top = depth, top
		if ptr, ok := it.v.(*value); ok && ptr == nil {
			res = "<nil>"
			return
		}
		if verb == 0 {
			verb = 'v'
		}
		res = "%!" + string(verb) + "(PANIC=" + name + " method: " + msg + ")"
	}()
	return i.callMethod(fr, it, name)
}
