package sym

// Lock-discipline analysis for C09 (DESIGN.md §5, C09).
//
// The scheduler cannot be executed symbolically; what can be decided is
// whether two calls that run the same code on shared objects are ordered by
// a common lock. A harness marks the objects that exist before the
// concurrent section as shared (zzShared), then zzParallel(f) executes f
// twice on every explored path (cold and warm caches) while the interpreter
// logs each load / store / map operation on a shared location together with
// the mutexes held. Objects created inside the section are thread-local
// until a pointer to them is stored into a shared location (publication).
// Since both goroutines run the same code, every logged access can be
// performed by either of them: a location with a write w and an access a
// (possibly w itself) that do not hold a common mutex, exclusively on the
// writing side(s), is a data race candidate. Candidates are confirmed
// natively by running the section in parallel goroutines under the race
// detector.

import (
	"fmt"
	"go/token"
	"go/types"
	"sort"
	"strings"
	"unsafe"

	"golang.org/x/tools/go/ssa"
)

type lockMode int

const (
	lockShared lockMode = 1
	lockExcl   lockMode = 2
)

type raceEvent struct {
	write bool
	locks map[uintptr]lockMode
	pos   token.Pos
	fn    string
}

type raceTrace struct {
	shared  map[uintptr]string // address of a cell or map -> description
	events  map[uintptr][]raceEvent
	held    map[uintptr]lockMode // mutex address -> mode
	active  bool                 // inside zzParallel
	paused  int                  // inside sync.Once.Do / pool internals
	seenEv  map[string]bool
	nEvents int
	// publication inside a critical section: an object that becomes shared
	// while a mutex is held exclusively stays private to the publishing call
	// until that critical section ends (any other call can only obtain the
	// pointer through the shared location, whose own accesses are checked).
	epoch  map[uintptr]int             // mutex -> number of acquisitions so far
	pub    map[uintptr]map[uintptr]int // cell -> {mutex: epoch} held exclusively at publication
	pubCtx map[uintptr]int             // non-nil while a publication is being marked
}

// mark records addr as shared; it reports whether it was new.
func (rt *raceTrace) mark(a uintptr, name string) bool {
	if _, done := rt.shared[a]; done {
		return false
	}
	rt.shared[a] = name
	if rt.pubCtx != nil {
		rt.pub[a] = rt.pubCtx
	}
	return true
}

// exclHeld returns the exclusively held mutexes with their epochs.
func (rt *raceTrace) exclHeld() map[uintptr]int {
	var m map[uintptr]int
	for mu, mode := range rt.held {
		if mode == lockExcl {
			if m == nil {
				m = map[uintptr]int{}
			}
			m[mu] = rt.epoch[mu]
		}
	}
	return m
}

// publish marks v shared as the consequence of a store into a shared location.
func (i *interpreter) publish(v value, t types.Type, path string) {
	rt := i.race
	if rt.active {
		rt.pubCtx = rt.exclHeld()
	}
	i.markShared(v, t, path, 0)
	rt.pubCtx = nil
}

func newRaceTrace() *raceTrace {
	return &raceTrace{shared: map[uintptr]string{}, events: map[uintptr][]raceEvent{}, held: map[uintptr]lockMode{}, seenEv: map[string]bool{},
		epoch: map[uintptr]int{}, pub: map[uintptr]map[uintptr]int{}}
}

func cellAddr(p *value) uintptr { return uintptr(unsafe.Pointer(p)) }

// markShared marks every cell reachable from v as shared.
func (i *interpreter) markShared(v value, t types.Type, path string, depth int) {
	rt := i.race
	if rt == nil || depth > 64 {
		return
	}
	switch x := v.(type) {
	case *value:
		if x == nil {
			return
		}
		a := cellAddr(x)
		if !rt.mark(a, path) {
			return
		}
		var et types.Type
		if t != nil {
			if pt, ok := t.Underlying().(*types.Pointer); ok {
				et = pt.Elem()
			}
		}
		i.markSharedContent(x, et, path, depth+1)
	case iface:
		if x.t == nil {
			return
		}
		i.markShared(x.v, x.t, path, depth+1)
	case structure:
		// a struct value held directly (not through a pointer): its fields
		// live in the holder's cell; mark what they point to
		var st *types.Struct
		if t != nil {
			st, _ = t.Underlying().(*types.Struct)
		}
		for k := range x {
			var ft types.Type
			name := fmt.Sprintf("%s.%d", path, k)
			if st != nil && k < st.NumFields() {
				ft = st.Field(k).Type()
				name = path + "." + st.Field(k).Name()
			}
			rt.mark(cellAddr(&x[k]), name)
			i.markShared(x[k], ft, name, depth+1)
		}
	case array:
		for k := range x {
			rt.mark(cellAddr(&x[k]), fmt.Sprintf("%s[%d]", path, k))
			i.markShared(x[k], nil, fmt.Sprintf("%s[%d]", path, k), depth+1)
		}
	case []value:
		var et types.Type
		if t != nil {
			if st, ok := t.Underlying().(*types.Slice); ok {
				et = st.Elem()
			}
		}
		for k := range x {
			if !rt.mark(cellAddr(&x[k]), fmt.Sprintf("%s[%d]", path, k)) {
				continue
			}
			i.markShared(x[k], et, fmt.Sprintf("%s[%d]", path, k), depth+1)
		}
	case *smap:
		if x == nil {
			return
		}
		if !rt.mark(uintptr(unsafe.Pointer(x)), path+"{map}") {
			return
		}
		var vt types.Type
		if t != nil {
			if mt, ok := t.Underlying().(*types.Map); ok {
				vt = mt.Elem()
			}
		}
		for _, e := range x.ents {
			i.markShared(e.v, vt, path+"["+fmt.Sprint(describeValue(e.k))+"]", depth+1)
		}
	case *closure:
		if x == nil {
			return
		}
		for k, e := range x.Env {
			i.markShared(e, nil, fmt.Sprintf("%s$%d", path, k), depth+1)
		}
	}
}

func (i *interpreter) markSharedContent(cell *value, t types.Type, path string, depth int) {
	i.markShared(*cell, t, path, depth)
}

// raceAccess logs an access to a cell or map when it is shared.
func (i *interpreter) raceAccess(addr uintptr, write bool, fr *frame, pos token.Pos) {
	rt := i.race
	if rt == nil || !rt.active || rt.paused > 0 {
		return
	}
	if _, ok := rt.shared[addr]; !ok {
		return
	}
	// still inside the critical section in which the object was published
	for mu, ep := range rt.pub[addr] {
		if rt.held[mu] == lockExcl && rt.epoch[mu] == ep {
			return
		}
	}
	fn := ""
	if fr != nil {
		fn = fr.fn.String()
		// the harness's own accesses are not part of the program under test
		if strings.Contains(fn, ".Verif") || strings.Contains(fn, ".zz") {
			return
		}
	}
	var lk []string
	for m, mode := range rt.held {
		lk = append(lk, fmt.Sprintf("%x:%d", m, mode))
	}
	sort.Strings(lk)
	key := fmt.Sprintf("%x|%v|%d|%s", addr, write, pos, strings.Join(lk, ","))
	if rt.seenEv[key] {
		return
	}
	rt.seenEv[key] = true
	locks := map[uintptr]lockMode{}
	for m, mode := range rt.held {
		locks[m] = mode
	}
	rt.events[addr] = append(rt.events[addr], raceEvent{write: write, locks: locks, pos: pos, fn: fn})
	rt.nEvents++
}

func protected(w, a raceEvent) bool {
	for m, wm := range w.locks {
		am, ok := a.locks[m]
		if !ok || wm != lockExcl {
			continue
		}
		if a.write && am != lockExcl {
			continue
		}
		return true
	}
	return false
}

type raceReport struct {
	Location string `json:"location"`
	Write    string `json:"write"`
	Other    string `json:"other"`
}

// raceCandidates analyses the log of the current path.
func (i *interpreter) raceCandidates() []raceReport {
	rt := i.race
	if rt == nil {
		return nil
	}
	var out []raceReport
	seen := map[string]bool{}
	posStr := func(e raceEvent) string {
		p := i.prog.Fset.Position(e.pos)
		kind := "read"
		if e.write {
			kind = "write"
		}
		file := p.Filename
		if k := strings.LastIndex(file, "/repo/"); k >= 0 {
			file = file[k+6:]
		}
		return fmt.Sprintf("%s %s:%d (%s) locks=%d", kind, file, p.Line, strings.TrimPrefix(e.fn, "github.com/titpetric/vuego"), len(e.locks))
	}
	var addrs []uintptr
	for a := range rt.events {
		addrs = append(addrs, a)
	}
	sort.Slice(addrs, func(x, y int) bool { return rt.shared[addrs[x]] < rt.shared[addrs[y]] })
	for _, addr := range addrs {
		evs := rt.events[addr]
		for _, w := range evs {
			if !w.write {
				continue
			}
			for _, a := range evs {
				if protected(w, a) {
					continue
				}
				r := raceReport{Location: rt.shared[addr], Write: posStr(w), Other: posStr(a)}
				key := r.Write + "|" + r.Other
				if seen[key] {
					continue
				}
				seen[key] = true
				out = append(out, r)
			}
		}
	}
	return out
}

// raceStore logs the leaf cells written by a store of type T and publishes
// the stored value when the destination is shared.
func (i *interpreter) raceStore(T types.Type, addr *value, v value, fr *frame, pos token.Pos) {
	if addr == nil {
		return
	}
	switch T := T.Underlying().(type) {
	case *types.Struct:
		lhs, ok := (*addr).(structure)
		rhs, ok2 := v.(structure)
		if ok && ok2 {
			for k := range lhs {
				i.raceStore(T.Field(k).Type(), &lhs[k], rhs[k], fr, pos)
			}
			return
		}
	case *types.Array:
		lhs, ok := (*addr).(array)
		rhs, ok2 := v.(array)
		if ok && ok2 {
			for k := range lhs {
				i.raceStore(T.Elem(), &lhs[k], rhs[k], fr, pos)
			}
			return
		}
	}
	a := cellAddr(addr)
	i.raceAccess(a, true, fr, pos)
	if path, ok := i.race.shared[a]; ok {
		i.publish(v, T, path)
	}
}

func (i *interpreter) raceLoad(T types.Type, addr *value, fr *frame, pos token.Pos) {
	switch T := T.Underlying().(type) {
	case *types.Struct:
		if lhs, ok := (*addr).(structure); ok {
			for k := range lhs {
				i.raceLoad(T.Field(k).Type(), &lhs[k], fr, pos)
			}
			return
		}
	case *types.Array:
		if lhs, ok := (*addr).(array); ok {
			for k := range lhs {
				i.raceLoad(T.Elem(), &lhs[k], fr, pos)
			}
			return
		}
	}
	i.raceAccess(cellAddr(addr), false, fr, pos)
}

func (i *interpreter) lockOp(m value, mode lockMode, acquire bool) {
	p, ok := m.(*value)
	if !ok || p == nil {
		return
	}
	a := cellAddr(p)
	// Self-deadlock: the execution is single-threaded, so acquiring a mutex
	// that this very execution still holds (exclusively, or shared when the
	// new acquisition is exclusive) can never succeed. sync.RWMutex is not
	// re-entrant; a read lock on top of a read lock is allowed.
	if i.locks == nil {
		i.locks = map[uintptr][]lockMode{}
	}
	if acquire {
		for _, h := range i.locks[a] {
			if h == lockExcl || mode == lockExcl {
				panic(stop{kind: "unwind", id: "deadlock", msg: "a mutex is acquired while this call already holds it: the call can never return"})
			}
		}
		i.locks[a] = append(i.locks[a], mode)
	} else if hs := i.locks[a]; len(hs) > 0 {
		i.locks[a] = hs[:len(hs)-1]
	}
	if i.race == nil {
		return
	}
	if acquire {
		i.race.epoch[a]++
		i.race.held[a] = mode
	} else {
		delete(i.race.held, a)
	}
}

const ulidPkgPath = "github.com/titpetric/vuego/internal/ulid"

// packages whose functions are replaced by a model as a whole
var stubbedPackages = map[string]bool{ulidPkgPath: true}

// stubStateAccess keeps the model of a stubbed package honest about shared
// state. The model stands for stateless code. It is re-checked against the
// package's current SSA on every call: if the real package declares package
// variables, a call is taken to read and write each of them; unless some
// function of the package acquires a mutex, the accesses are logged without
// a lock (a candidate the native race detector then confirms or refutes).
func (i *interpreter) stubStateAccess(fr *frame, path string) {
	rt := i.race
	if rt == nil || !rt.active {
		return
	}
	var pkg *ssa.Package
	for _, p := range i.prog.AllPackages() {
		if p.Pkg.Path() == path {
			pkg = p
			break
		}
	}
	if pkg == nil {
		return
	}
	var globals []*ssa.Global
	locks := false
	var names []string
	for name := range pkg.Members {
		names = append(names, name)
	}
	sort.Strings(names)
	for _, name := range names {
		switch m := pkg.Members[name].(type) {
		case *ssa.Global:
			if !strings.HasPrefix(m.Name(), "init$") {
				globals = append(globals, m)
			}
		case *ssa.Function:
			for _, b := range m.Blocks {
				for _, in := range b.Instrs {
					if c, ok := in.(ssa.CallInstruction); ok {
						if callee := c.Common().StaticCallee(); callee != nil && strings.HasSuffix(callee.String(), "Mutex).Lock") {
							locks = true
						}
					}
				}
			}
		}
	}
	if locks {
		return
	}
	for _, g := range globals {
		addr := cellAddr(i.globalCell(g))
		rt.mark(addr, pkg.Pkg.Name()+"."+g.Name()+" (state behind a modelled package)")
		i.raceAccess(addr, true, fr, g.Pos())
	}
}
