package sym

// Harness runtime (zz* functions declared in zz_verif_rt.go of each harness
// package) intercepted by name.

import (
	"fmt"
	"go/token"
	"go/types"
	"strings"

	"golang.org/x/tools/go/ssa"
)

var zzIntrinsics map[string]externalFn

func init() {
	zzIntrinsics = map[string]externalFn{
		"zzString": func(fr *frame, a []value) value {
			return fr.i.newInputString(a[0].(string), int(asInt64(a[1])), "")
		},
		"zzStringIn": func(fr *frame, a []value) value {
			return fr.i.newInputString(a[0].(string), int(asInt64(a[1])), a[2].(string))
		},
		"zzInt": func(fr *frame, a []value) value {
			return fr.i.newInputInt(a[0].(string), types.Int, asInt64(a[1]), asInt64(a[2]), true)
		},
		"zzByte": func(fr *frame, a []value) value {
			return fr.i.newInputInt(a[0].(string), types.Uint8, 0, 0x7f, true)
		},
		"zzBits": func(fr *frame, a []value) value {
			// arbitrary value of the given bit width, returned as uint64
			w := int(asInt64(a[1]))
			i := fr.i
			if w >= 64 {
				return i.newInputInt(a[0].(string), types.Uint64, 0, 0, false)
			}
			return i.newInputInt(a[0].(string), types.Uint64, 0, int64((uint64(1)<<uint(w))-1), true)
		},
		"zzBool": func(fr *frame, a []value) value { return fr.i.newInputBool(a[0].(string)) },
		"zzChoice": func(fr *frame, a []value) value {
			i := fr.i
			n := asInt64(a[1])
			v := i.newInputInt(a[0].(string), types.Int, 0, n-1, true)
			return i.concretize(v)
		},
		"zzAssume": func(fr *frame, a []value) value {
			fr.i.assume(fr.i.boolTerm(a[0]), "zzAssume")
			return nil
		},
		"zzAssert": func(fr *frame, a []value) value {
			i := fr.i
			i.top = fr.caller
			ok := false
			switch c := a[0].(type) {
			case bool:
				ok = c
			case symBool:
				ok = i.branch(c.t)
			}
			if !ok {
				panic(stop{kind: "violation", id: a[1].(string), msg: "assertion " + a[1].(string) + " fails"})
			}
			return nil
		},
		"zzFail": func(fr *frame, a []value) value {
			fr.i.top = fr.caller
			panic(stop{kind: "violation", id: a[0].(string), msg: "reached zzFail " + a[0].(string)})
		},
		"zzCover": func(fr *frame, a []value) value {
			i := fr.i
			id := a[1].(string)
			if i.run.covers[id] || i.w.CoversHit[id] {
				return nil
			}
			hit := false
			switch c := a[0].(type) {
			case bool:
				hit = c
			case symBool:
				hit = i.feasible(c.t)
			}
			if hit {
				i.run.covers[id] = true
			}
			return nil
		},
		"zzNote": func(fr *frame, a []value) value {
			i := fr.i
			v := a[1]
			if it, ok := v.(iface); ok {
				v = it.v
			}
			switch x := v.(type) {
			case symStr, symInt, symBool:
				i.run.notes[a[0].(string)] = x
			default:
				i.run.notes[a[0].(string)] = describeValue(v)
			}
			return nil
		},
		"zzConcrete": func(fr *frame, a []value) value {
			// fixes a string by forking over its values
			return fr.i.concStr(a[0])
		},
		"zzIsSymbolic": func(fr *frame, a []value) value { return true },
		"zzBound": func(fr *frame, a []value) value {
			if fr.i.w.Cfg.Tier == "thorough" {
				return a[2]
			}
			return a[1]
		},
		"zzTagOpens": func(fr *frame, a []value) value {
			i := fr.i
			if c, ok := a[0].(string); ok {
				n, _ := htmlShapeNative(c)
				return n
			}
			t, _ := i.L.htmlShape(i.strOf(a[0]))
			return i.mkIntT(i.F.Zext(t, 64), types.Int)
		},
		"zzTagQuotes": func(fr *frame, a []value) value {
			i := fr.i
			if c, ok := a[0].(string); ok {
				_, n := htmlShapeNative(c)
				return n
			}
			_, q := i.L.htmlShape(i.strOf(a[0]))
			return i.mkIntT(i.F.Zext(q, 64), types.Int)
		},
		// ground-truth oracles that only exist natively (real HTML5 parser); the
		// engine side trusts the specification-level assertion next to them.
		"zzTextRoundTrips": func(fr *frame, a []value) value { return true },
		"zzAttrRoundTrips": func(fr *frame, a []value) value { return true },
		"zzUnescape": func(fr *frame, a []value) value {
			i := fr.i
			return i.mkStr(i.L.unescapeRefs(i.strOf(a[0]), basicRefs))
		},
		"zzCollapse": func(fr *frame, a []value) value {
			i := fr.i
			if c, ok := a[0].(string); ok {
				return strings.Join(strings.Fields(c), " ")
			}
			return i.mkStr(i.L.trimSpace(i.L.collapseSpaces(i.strOf(a[0]))))
		},
		"zzShared": func(fr *frame, a []value) value {
			i := fr.i
			if i.race == nil {
				i.race = newRaceTrace()
				for g, cell := range i.globals {
					if g.Pkg != nil && pathInterpretable(g.Pkg.Pkg.Path()) && !strings.HasPrefix(g.Name(), "init$") {
						i.markShared(cell, g.Type(), g.Pkg.Pkg.Name()+"."+g.Name(), 0)
					}
				}
			}
			it := a[1].(iface)
			i.markShared(it, nil, a[0].(string), 0)
			return nil
		},
		"zzParallel": func(fr *frame, a []value) value {
			i := fr.i
			if i.race == nil {
				i.race = newRaceTrace()
			}
			i.race.active = true
			call(i, fr, token.NoPos, a[0], nil)
			call(i, fr, token.NoPos, a[0], nil)
			i.race.active = false
			cands := i.raceCandidates()
			i.run.notes["shared_locations"] = len(i.race.shared)
			i.run.notes["shared_accesses"] = i.race.nEvents
			if len(cands) > 0 {
				var lst []any
				for k, c := range cands {
					if k >= 6 {
						break
					}
					lst = append(lst, c.Location+": "+c.Write+" / "+c.Other)
				}
				i.run.notes["race_candidates"] = lst
				i.top = fr.caller
				panic(stop{kind: "violation", id: "C09.race", msg: "unordered conflicting accesses to " + cands[0].Location + ": " + cands[0].Write + " / " + cands[0].Other})
			}
			return nil
		},
		"zzSquash": func(fr *frame, a []value) value {
			i := fr.i
			if c, ok := a[0].(string); ok {
				return strings.Join(strings.Fields(c), "")
			}
			return i.mkStr(i.L.mapBytes(i.strOf(a[0]), map[byte]string{' ': "", '\t': "", '\n': "", '\v': "", '\f': "", '\r': ""}))
		},
		"zzContains": func(fr *frame, a []value) value {
			i := fr.i
			return i.mkBool(i.L.contains(i.strOf(a[0]), a[1].(string)))
		},
		"zzCountByte": func(fr *frame, a []value) value {
			i := fr.i
			c := asInt64(a[1])
			return i.mkIntT(i.L.count(i.strOf(a[0]), string(rune(c))), types.Int)
		},
	}
}

// eqnilVZero: is v the zero value of t?
func (i *interpreter) eqnilVZero(t types.Type, v value) value {
	switch x := v.(type) {
	case *smap:
		return x == nil
	case []value:
		return x == nil
	case symBytes:
		return false
	case *value:
		return x == nil
	}
	r := i.equalsV(t, v, zero(t))
	return r
}

// nativeBridge calls registered native functions for concrete arguments.
func (i *interpreter) nativeBridge(fr *frame, fn *ssa.Function, name string, args []value) (value, bool) {
	if f, ok := bridges[name]; ok {
		return f(fr, args), true
	}
	return i.callBridge(fr, fn, name, args)
}

var bridges = map[string]externalFn{}

func unsupported(format string, a ...any) {
	panic(stop{kind: "unsupported", msg: fmt.Sprintf(format, a...)})
}
