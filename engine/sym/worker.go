package sym

import (
	"fmt"
	"go/token"
	"go/types"
	"runtime/debug"
	"strings"

	"golang.org/x/tools/go/ssa"

	"verif/engine/smt"
)

// known error globals of the standard library (std package init functions
// are not executed; these cells are seeded on first use).
var stdErrorGlobals = map[string]string{
	"io.EOF":                "EOF",
	"io.ErrShortWrite":      "short write",
	"io.ErrUnexpectedEOF":   "unexpected EOF",
	"io/fs.ErrNotExist":     "file does not exist",
	"io/fs.ErrExist":        "file already exists",
	"io/fs.ErrInvalid":      "invalid argument",
	"io/fs.ErrPermission":   "permission denied",
	"io/fs.ErrClosed":       "file already closed",
	"io/fs.SkipDir":         "skip this directory",
	"io/fs.SkipAll":         "skip everything and stop the walk",
	"os.ErrNotExist":        "file does not exist",
	"context.Canceled":      "context canceled",
	"path/filepath.SkipDir": "skip this directory",
	"path.ErrBadPattern":    "syntax error in pattern",
	"strconv.ErrSyntax":     "invalid syntax",
	"strconv.ErrRange":      "value out of range",
}

func (i *interpreter) globalCell(g *ssa.Global) *value {
	persistent := g.Pkg != nil && strings.HasPrefix(g.Pkg.Pkg.Path(), "golang.org/x/net/")
	tab := i.globals
	if persistent {
		tab = i.w.onceGlobals
	}
	if c, ok := tab[g]; ok {
		return c
	}
	cell := zero(mustDeref(g.Type()))
	if g.Pkg != nil {
		if msg, ok := stdErrorGlobals[g.Pkg.Pkg.Path()+"."+g.Name()]; ok {
			key := g.Pkg.Pkg.Path() + "." + g.Name()
			if e, ok := i.w.stdErrs[key]; ok {
				cell = e
			} else {
				cell = i.newError(msg, iface{})
				i.w.stdErrs[key] = cell
			}
		}
	}
	tab[g] = &cell
	return &cell
}

// newError builds an engine error value (identity semantics like *errorString).
func (i *interpreter) newError(msg value, wrapped iface) value {
	var cell value = structure{msg, wrapped}
	return iface{errorType, &cell}
}

func errParts(e iface) (msg value, wrapped iface, ok bool) {
	if e.t != errorType {
		return nil, iface{}, false
	}
	p, isPtr := e.v.(*value)
	if !isPtr {
		// interp-style string error
		return e.v, iface{}, true
	}
	s := (*p).(structure)
	return s[0], s[1].(iface), true
}

// RunPath executes harness fn along one queued path.
func (w *Worker) RunPath(fn *ssa.Function, item PathItem) (out Outcome, forks []PathItem) {
	i := &interpreter{
		prog:    w.P.Prog,
		globals: make(map[*ssa.Global]*value),
		sizes:   types.SizesFor("gc", "amd64"),
		w:       w,
		F:       w.F,
		L:       w.L,
	}
	i.runtimeErrorString = w.P.runtimeErrStr
	if w.onceGlobals == nil {
		w.onceGlobals = make(map[*ssa.Global]*value)
	}
	if w.stdErrs == nil {
		w.stdErrs = map[string]value{}
	}
	r := &run{decs: item.Decs, startModel: item.Model, notes: map[string]any{}, covers: map[string]bool{}}
	i.run = r
	w.Stats.Paths++

	finish := func(kind, id, msg string, m smt.Model) {
		out.Kind, out.ID, out.Msg = kind, id, msg
		if m == nil && (kind == "violation" || kind == "panic") {
			m = w.classify(i, fn.Name(), id, &out)
		}
		if m == nil {
			m = i.safeModel()
		}
		out.Inputs = i.decodeInputs(m)
		out.Notes = i.resolveNotes(m)
		out.Covers = sortedKeys(r.covers)
		out.Branches = r.nbranch
		out.Steps = r.steps
		out.Decs = r.decs
		if i.top != nil && kind != "ok" {
			out.Stack = shortStack(i.top)
		}
		forks = r.forks
	}

	defer func() {
		p := recover()
		if p == nil {
			return
		}
		switch p := p.(type) {
		case stop:
			switch p.kind {
			case "infeasible":
				finish("infeasible", "", p.msg, smt.Model{})
			default:
				if p.kind == "unsupported" {
					w.Unsupported[p.msg]++
				}
				finish(p.kind, p.id, p.msg, nil)
			}
		case targetPanic:
			finish("panic", "panic", "panic: "+i.panicString(p.v), nil)
		case runtimeError:
			finish("panic", "panic", "panic: "+p.Error(), nil)
		default:
			msg := fmt.Sprintf("engine failure: %v", p)
			st := string(debug.Stack())
			if len(st) > 3000 {
				st = st[:3000]
			}
			w.Unsupported[msg]++
			finish("unsupported", "", msg+"\n"+st, nil)
		}
	}()

	// package initialisation (outside the step budget)
	pkg := fn.Pkg
	if initFn := pkg.Func("init"); initFn != nil {
		saved := w.Cfg
		w.Cfg.MaxSteps = 1 << 40
		w.Cfg.Unwind = 1 << 30
		call(i, nil, token.NoPos, initFn, nil)
		w.Cfg = saved
		r.steps = 0
	}
	call(i, nil, token.NoPos, fn, nil)
	finish("ok", "", "", nil)
	return
}

func (i *interpreter) safeModel() (m smt.Model) {
	defer func() {
		if recover() != nil {
			m = smt.Model{}
		}
	}()
	return i.currentModel()
}

func (i *interpreter) panicString(v value) string {
	if it, ok := v.(iface); ok {
		if it.t == nil {
			return "nil"
		}
		if msg, _, ok := errParts(it); ok {
			return fmt.Sprint(describeValue(msg))
		}
		return fmt.Sprintf("%v", describeValue(it.v))
	}
	return toString(v)
}

// classify decides whether a violating path has a model outside every
// known-finding region (a new violation) or only inside one (known finding).
func (w *Worker) classify(i *interpreter, harness, id string, out *Outcome) (m smt.Model) {
	regs := w.Regions[harness+"|"+id]
	if len(regs) == 0 {
		return nil
	}
	defer func() {
		if p := recover(); p != nil {
			out.Msg += fmt.Sprintf(" [region evaluation failed: %v]", p)
			m = nil
		}
	}()
	F := i.F
	var rts []*smt.Term
	for _, r := range regs {
		rts = append(rts, i.regionTerm(r.expr))
	}
	var outside []*smt.Term
	for _, t := range rts {
		outside = append(outside, F.Not(t))
	}
	pc := append([]*smt.Term{}, i.run.pc...)
	res, mo := w.check(append(pc, outside...))
	switch res {
	case smt.Sat:
		return mo // new violation, model outside all regions
	case smt.Unknown:
		out.Msg += " [solver unknown on region query]"
		return nil
	}
	for k, t := range rts {
		res, mk := w.check(append(append([]*smt.Term{}, i.run.pc...), t))
		if res == smt.Sat {
			out.Known = regs[k].Name
			return mk
		}
	}
	out.Msg += " [no region model]"
	return nil
}

func (i *interpreter) resolveNotes(m smt.Model) map[string]any {
	out := map[string]any{}
	memo := map[int]uint64{}
	for k, v := range i.run.notes {
		switch x := v.(type) {
		case symStr:
			out[k] = i.L.evalStr(x.Str, m, memo)
		case symInt:
			out[k] = int64(i.F.EvalMemo(x.t, m, memo))
		case symBool:
			out[k] = i.F.EvalMemo(x.t, m, memo) == 1
		default:
			out[k] = x
		}
	}
	return out
}
