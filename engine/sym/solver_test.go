package sym

import (
	"fmt"
	"os"
	"testing"

	"verif/engine/smt"
)

func TestSolverContains(t *testing.T) {
	F := smt.NewFactory()
	L := strLib{F}
	S, err := smt.NewSolver(F, "z3", 10000)
	if err != nil {
		t.Fatal(err)
	}
	S.Trace = os.Stderr
	defer S.Close()
	ln := F.BVVar("val.len", 8)
	slots := make([]slot, 4)
	for k := range slots {
		slots[k] = slot{F.Ult(F.BV(uint64(k), 8), ln), F.BVVar(fmt.Sprintf("val.%d", k), 8)}
	}
	s := &Str{s: slots}
	pc := []*smt.Term{F.Ule(ln, F.BV(4, 8)), L.contains(s, "&"), F.Not(L.contains(s, "&lt;"))}
	res, m := S.Check(append(pc, L.contains(s, "&gt;")))
	t.Logf("res=%v model=%v", res, m)
	if res != smt.Sat {
		t.Fatalf("expected sat")
	}
}
