package sym

// Symbolic strings as guarded slot sequences (DESIGN.md §3.4): a string is a
// list of (guard, byte) slots and denotes the subsequence of bytes whose
// guard is true. Concatenation is list append; every other operation below
// is linear (or n*m for a constant pattern of length m) in the slot count.
//
// All bytes are assumed < 0x80 (stated in every evidence file).

import (
	"verif/engine/smt"
)

type slot struct {
	g *smt.Term // Bool
	b *smt.Term // BV8
}

// Str is an immutable symbolic string.
type Str struct {
	s   []slot
	pos []*smt.Term // lazily computed: number of present slots before k (BV16)
	ln  *smt.Term   // lazily computed length (BV16)
}

const posW = 16

type strLib struct {
	F *smt.Factory
}

func (L strLib) lit(s string) *Str {
	out := make([]slot, len(s))
	for i := 0; i < len(s); i++ {
		out[i] = slot{L.F.True, L.F.BV(uint64(s[i]), 8)}
	}
	return &Str{s: out}
}

// concrete reports the Go string when every guard and byte is constant.
func (L strLib) concrete(s *Str) (string, bool) {
	buf := make([]byte, 0, len(s.s))
	for _, sl := range s.s {
		if !sl.g.IsConst() {
			return "", false
		}
		if sl.g.IsFalse() {
			continue
		}
		if !sl.b.IsConst() {
			return "", false
		}
		buf = append(buf, byte(sl.b.Val))
	}
	return string(buf), true
}

// compact drops slots whose guard is constant false.
func (L strLib) compact(s []slot) *Str {
	out := make([]slot, 0, len(s))
	for _, sl := range s {
		if sl.g.IsFalse() {
			continue
		}
		out = append(out, sl)
	}
	return &Str{s: out}
}

func (L strLib) concat(a, b *Str) *Str {
	out := make([]slot, 0, len(a.s)+len(b.s))
	out = append(out, a.s...)
	out = append(out, b.s...)
	return &Str{s: out}
}

func (L strLib) positions(s *Str) []*smt.Term {
	if s.pos != nil {
		return s.pos
	}
	F := L.F
	pos := make([]*smt.Term, len(s.s)+1)
	cur := F.BV(0, posW)
	for k, sl := range s.s {
		pos[k] = cur
		cur = F.Add(cur, F.Ite(sl.g, F.BV(1, posW), F.BV(0, posW)))
	}
	pos[len(s.s)] = cur
	s.pos = pos
	s.ln = cur
	return pos
}

// length16 is the length as BV16.
func (L strLib) length16(s *Str) *smt.Term {
	L.positions(s)
	return s.ln
}

// length is the length as a 64-bit term.
func (L strLib) length(s *Str) *smt.Term {
	return L.F.Zext(L.length16(s), 64)
}

// rpositions: number of present slots after k.
func (L strLib) rpositions(s *Str) []*smt.Term {
	F := L.F
	n := len(s.s)
	r := make([]*smt.Term, n)
	cur := F.BV(0, posW)
	for k := n - 1; k >= 0; k-- {
		r[k] = cur
		cur = F.Add(cur, F.Ite(s.s[k].g, F.BV(1, posW), F.BV(0, posW)))
	}
	return r
}

func (L strLib) to16(i *smt.Term) *smt.Term {
	if i.W == posW {
		return i
	}
	return L.F.Extract(i, posW-1, 0)
}

// inRange16 reports 0 <= i < 2^15 for a 64-bit signed index so that the
// truncation to BV16 done by the operations below is exact.
func (L strLib) fits16(i *smt.Term) *smt.Term {
	if i.W <= posW {
		return L.F.True
	}
	return L.F.Ult(i, L.F.BV(1<<15, i.W))
}

// byteAt returns the byte at index i (BV16); unspecified (0) when i is out of range.
func (L strLib) byteAt(s *Str, i *smt.Term) *smt.Term {
	F := L.F
	pos := L.positions(s)
	res := F.BV(0, 8)
	for k := len(s.s) - 1; k >= 0; k-- {
		sl := s.s[k]
		hit := F.And(sl.g, F.Eq(pos[k], i))
		res = F.Ite(hit, sl.b, res)
	}
	return res
}

// slice returns s[lo:hi] for BV16 offsets (either may be nil: 0 / len).
func (L strLib) slice(s *Str, lo, hi *smt.Term) *Str {
	F := L.F
	pos := L.positions(s)
	out := make([]slot, 0, len(s.s))
	for k, sl := range s.s {
		g := sl.g
		if lo != nil {
			g = F.And(g, F.Ule(lo, pos[k]))
		}
		if hi != nil {
			g = F.And(g, F.Ult(pos[k], hi))
		}
		if g.IsFalse() {
			continue
		}
		out = append(out, slot{g, sl.b})
	}
	return &Str{s: out}
}

// eqConst: s == c.
func (L strLib) eqConst(s *Str, c string) *smt.Term {
	F := L.F
	pos := L.positions(s)
	m := len(c)
	conj := []*smt.Term{F.Eq(s.ln, F.BV(uint64(m), posW))}
	for k, sl := range s.s {
		var alts []*smt.Term
		for j := 0; j < m; j++ {
			pe := F.Eq(pos[k], F.BV(uint64(j), posW))
			if pe.IsFalse() {
				continue
			}
			alts = append(alts, F.And(pe, F.Eq(sl.b, F.BV(uint64(c[j]), 8))))
		}
		conj = append(conj, F.Or(F.Not(sl.g), F.Or(alts...)))
	}
	return F.And(conj...)
}

// eq: a == b for two symbolic strings.
func (L strLib) eq(a, b *Str) *smt.Term {
	// identical leading / trailing slots (same guard and byte terms) cancel out
	as, bs := a.s, b.s
	for len(as) > 0 && len(bs) > 0 && as[0].g == bs[0].g && (as[0].b == bs[0].b || as[0].g.IsFalse()) {
		as, bs = as[1:], bs[1:]
	}
	for len(as) > 0 && len(bs) > 0 && as[len(as)-1].g == bs[len(bs)-1].g && (as[len(as)-1].b == bs[len(bs)-1].b || as[len(as)-1].g.IsFalse()) {
		as, bs = as[:len(as)-1], bs[:len(bs)-1]
	}
	if len(as) != len(a.s) {
		a, b = &Str{s: as}, &Str{s: bs}
	}
	if len(a.s) == 0 && len(b.s) == 0 {
		return L.F.True
	}
	if cb, ok := L.concrete(b); ok {
		return L.eqConst(a, cb)
	}
	if ca, ok := L.concrete(a); ok {
		return L.eqConst(b, ca)
	}
	F := L.F
	pa, pb := L.positions(a), L.positions(b)
	conj := []*smt.Term{F.Eq(a.ln, b.ln)}
	for i, sa := range a.s {
		for j, sb := range b.s {
			both := F.And(sa.g, sb.g, F.Eq(pa[i], pb[j]))
			if both.IsFalse() {
				continue
			}
			conj = append(conj, F.Or(F.Not(both), F.Eq(sa.b, sb.b)))
		}
	}
	return F.And(conj...)
}

// less: a < b lexicographically (quadratic; used rarely).
func (L strLib) less(a, b *Str) *smt.Term {
	F := L.F
	// first differing position p: a[p] < b[p], or a is a proper prefix of b.
	la, lb := L.length16(a), L.length16(b)
	maxn := len(a.s)
	if len(b.s) < maxn {
		maxn = len(b.s)
	}
	res := F.Ult(la, lb) // all common positions equal -> shorter is smaller
	for p := maxn - 1; p >= 0; p-- {
		pi := F.BV(uint64(p), posW)
		in := F.And(F.Ult(pi, la), F.Ult(pi, lb))
		ca, cb := L.byteAt(a, pi), L.byteAt(b, pi)
		res = F.Ite(in, F.Ite(F.Eq(ca, cb), res, F.Ult(ca, cb)), res)
	}
	return res
}

// ---- finite automata over slots --------------------------------------------

// dfa for substring search of pattern p: states 0..m, state m accepting.
type dfa struct {
	m     int
	chars []byte  // distinct bytes of the pattern
	delta [][]int // delta[state][charIndex]; other bytes go to 0
}

func buildKMP(p string, absorbing bool, restart bool) *dfa {
	m := len(p)
	d := &dfa{m: m}
	seen := map[byte]int{}
	for i := 0; i < m; i++ {
		if _, ok := seen[p[i]]; !ok {
			seen[p[i]] = len(d.chars)
			d.chars = append(d.chars, p[i])
		}
	}
	// naive construction: delta(j,c) = longest k such that p[:k] is a suffix of p[:j]+c
	d.delta = make([][]int, m+1)
	for j := 0; j <= m; j++ {
		d.delta[j] = make([]int, len(d.chars))
		for ci, c := range d.chars {
			if j == m {
				if absorbing {
					d.delta[j][ci] = m
					continue
				}
				if restart {
					// non-overlapping counting: after a match continue from state 0
					if p[0] == c {
						d.delta[j][ci] = 1
					}
					continue
				}
			}
			base := p[:j]
			if j == m {
				base = p
			}
			cand := base + string(c)
			k := len(cand)
			if k > m {
				k = m
			}
			for ; k > 0; k-- {
				if cand[len(cand)-k:] == p[:k] {
					break
				}
			}
			d.delta[j][ci] = k
		}
	}
	return d
}

// step applies the automaton to one slot; q is a one-hot vector of Bool terms.
func (L strLib) step(d *dfa, q []*smt.Term, sl slot, absorbing, restart bool) []*smt.Term {
	F := L.F
	is := make([]*smt.Term, len(d.chars))
	for ci, c := range d.chars {
		is[ci] = F.Eq(sl.b, F.BV(uint64(c), 8))
	}
	other := F.Not(F.Or(is...))
	nq := make([]*smt.Term, d.m+1)
	alts := make([][]*smt.Term, d.m+1)
	for j := 0; j <= d.m; j++ {
		if q[j].IsFalse() {
			continue
		}
		for ci := range d.chars {
			t := d.delta[j][ci]
			alts[t] = append(alts[t], F.And(q[j], is[ci]))
		}
		// other bytes
		t := 0
		if j == d.m && absorbing {
			t = d.m
		}
		alts[t] = append(alts[t], F.And(q[j], other))
	}
	for t := 0; t <= d.m; t++ {
		moved := F.Or(alts[t]...)
		nq[t] = F.Ite(sl.g, moved, q[t])
	}
	return nq
}

func (L strLib) initQ(m int) []*smt.Term {
	q := make([]*smt.Term, m+1)
	for j := range q {
		q[j] = L.F.False
	}
	q[0] = L.F.True
	return q
}

// contains: strings.Contains(s, p).
func (L strLib) contains(s *Str, p string) *smt.Term {
	if p == "" {
		return L.F.True
	}
	d := buildKMP(p, true, false)
	q := L.initQ(d.m)
	for _, sl := range s.s {
		q = L.step(d, q, sl, true, false)
	}
	return q[d.m]
}

// index: strings.Index(s, p) as a signed 64-bit term (-1 when absent).
func (L strLib) index(s *Str, p string) *smt.Term {
	F := L.F
	if p == "" {
		return F.BV(0, 64)
	}
	pos := L.positions(s)
	d := buildKMP(p, true, false)
	q := L.initQ(d.m)
	res := F.BV(^uint64(0), 64)
	type hit struct {
		c *smt.Term
		v *smt.Term
	}
	var hits []hit
	for k, sl := range s.s {
		nq := L.step(d, q, sl, true, false)
		first := F.And(F.Not(q[d.m]), nq[d.m])
		if !first.IsFalse() {
			start := F.Sub(pos[k], F.BV(uint64(d.m-1), posW))
			hits = append(hits, hit{first, F.Zext(start, 64)})
		}
		q = nq
	}
	for i := len(hits) - 1; i >= 0; i-- {
		res = F.Ite(hits[i].c, hits[i].v, res)
	}
	return res
}

// lastIndex: strings.LastIndex(s, p) (-1 when absent).
func (L strLib) lastIndex(s *Str, p string) *smt.Term {
	F := L.F
	if p == "" {
		return L.length(s)
	}
	pos := L.positions(s)
	d := buildKMP(p, false, false)
	q := L.initQ(d.m)
	res := F.BV(^uint64(0), 64)
	for k, sl := range s.s {
		nq := L.step(d, q, sl, false, false)
		h := F.And(sl.g, nq[d.m])
		start := F.Zext(F.Sub(pos[k], F.BV(uint64(d.m-1), posW)), 64)
		res = F.Ite(h, start, res)
		q = nq
	}
	return res
}

// count: strings.Count(s, p) (non-overlapping) as a 64-bit term.
func (L strLib) count(s *Str, p string) *smt.Term {
	F := L.F
	if p == "" {
		return F.Add(L.length(s), F.BV(1, 64))
	}
	d := buildKMP(p, false, true)
	q := L.initQ(d.m)
	cnt := F.BV(0, posW)
	for _, sl := range s.s {
		nq := L.step(d, q, sl, false, true)
		h := F.And(sl.g, nq[d.m])
		cnt = F.Add(cnt, F.Ite(h, F.BV(1, posW), F.BV(0, posW)))
		q = nq
	}
	return F.Zext(cnt, 64)
}

func (L strLib) inSet(b *smt.Term, set string) *smt.Term {
	F := L.F
	var alts []*smt.Term
	for i := 0; i < len(set); i++ {
		alts = append(alts, F.Eq(b, F.BV(uint64(set[i]), 8)))
	}
	return F.Or(alts...)
}

func (L strLib) containsAny(s *Str, set string) *smt.Term {
	F := L.F
	var alts []*smt.Term
	for _, sl := range s.s {
		alts = append(alts, F.And(sl.g, L.inSet(sl.b, set)))
	}
	return F.Or(alts...)
}

// indexAny: index of the first byte in set, or -1.
func (L strLib) indexAny(s *Str, set string) *smt.Term {
	F := L.F
	pos := L.positions(s)
	res := F.BV(^uint64(0), 64)
	for k := len(s.s) - 1; k >= 0; k-- {
		sl := s.s[k]
		res = F.Ite(F.And(sl.g, L.inSet(sl.b, set)), F.Zext(pos[k], 64), res)
	}
	return res
}

// lastIndexAny: index of the last byte in set, or -1.
func (L strLib) lastIndexAny(s *Str, set string) *smt.Term {
	F := L.F
	pos := L.positions(s)
	res := F.BV(^uint64(0), 64)
	for k := 0; k < len(s.s); k++ {
		sl := s.s[k]
		res = F.Ite(F.And(sl.g, L.inSet(sl.b, set)), F.Zext(pos[k], 64), res)
	}
	return res
}

func (L strLib) hasPrefix(s *Str, p string) *smt.Term {
	F := L.F
	pos := L.positions(s)
	m := len(p)
	conj := []*smt.Term{F.Ule(F.BV(uint64(m), posW), s.ln)}
	for k, sl := range s.s {
		for j := 0; j < m; j++ {
			at := F.And(sl.g, F.Eq(pos[k], F.BV(uint64(j), posW)))
			if at.IsFalse() {
				continue
			}
			conj = append(conj, F.Or(F.Not(at), F.Eq(sl.b, F.BV(uint64(p[j]), 8))))
		}
	}
	return F.And(conj...)
}

func (L strLib) hasSuffix(s *Str, p string) *smt.Term {
	F := L.F
	rp := L.rpositions(s)
	m := len(p)
	conj := []*smt.Term{F.Ule(F.BV(uint64(m), posW), L.length16(s))}
	for k, sl := range s.s {
		for j := 0; j < m; j++ {
			at := F.And(sl.g, F.Eq(rp[k], F.BV(uint64(j), posW)))
			if at.IsFalse() {
				continue
			}
			conj = append(conj, F.Or(F.Not(at), F.Eq(sl.b, F.BV(uint64(p[m-1-j]), 8))))
		}
	}
	return F.And(conj...)
}

const asciiSpace = " \t\n\v\f\r"

// trimSet removes leading (left) and/or trailing (right) bytes that are in set.
func (L strLib) trimSet(s *Str, set string, left, right bool) *Str {
	F := L.F
	n := len(s.s)
	in := make([]*smt.Term, n)
	for k, sl := range s.s {
		in[k] = L.inSet(sl.b, set)
	}
	keep := make([]*smt.Term, n)
	for k := range keep {
		keep[k] = s.s[k].g
	}
	if left {
		all := F.True // every present slot so far is in set
		for k := 0; k < n; k++ {
			all = F.And(all, F.Or(F.Not(s.s[k].g), in[k]))
			keep[k] = F.And(keep[k], F.Not(all))
		}
	}
	if right {
		all := F.True
		for k := n - 1; k >= 0; k-- {
			all = F.And(all, F.Or(F.Not(s.s[k].g), in[k]))
			keep[k] = F.And(keep[k], F.Not(all))
		}
	}
	out := make([]slot, 0, n)
	for k := range keep {
		if keep[k].IsFalse() {
			continue
		}
		out = append(out, slot{keep[k], s.s[k].b})
	}
	return &Str{s: out}
}

func (L strLib) trimSpace(s *Str) *Str { return L.trimSet(s, asciiSpace, true, true) }

func (L strLib) trimPrefix(s *Str, p string) *Str {
	F := L.F
	hp := L.hasPrefix(s, p)
	if hp.IsFalse() || p == "" {
		return s
	}
	pos := L.positions(s)
	m := F.BV(uint64(len(p)), posW)
	out := make([]slot, 0, len(s.s))
	for k, sl := range s.s {
		g := F.And(sl.g, F.Not(F.And(hp, F.Ult(pos[k], m))))
		if g.IsFalse() {
			continue
		}
		out = append(out, slot{g, sl.b})
	}
	return &Str{s: out}
}

func (L strLib) trimSuffix(s *Str, p string) *Str {
	F := L.F
	hs := L.hasSuffix(s, p)
	if hs.IsFalse() || p == "" {
		return s
	}
	rp := L.rpositions(s)
	m := F.BV(uint64(len(p)), posW)
	out := make([]slot, 0, len(s.s))
	for k, sl := range s.s {
		g := F.And(sl.g, F.Not(F.And(hs, F.Ult(rp[k], m))))
		if g.IsFalse() {
			continue
		}
		out = append(out, slot{g, sl.b})
	}
	return &Str{s: out}
}

// mapBytes rewrites every byte through a table of replacements: bytes that
// are keys of repl are replaced by the given string, others are kept.
func (L strLib) mapBytes(s *Str, repl map[byte]string) *Str {
	F := L.F
	maxLen := 1
	keys := make([]byte, 0, len(repl))
	for c, r := range repl {
		keys = append(keys, c)
		if len(r) > maxLen {
			maxLen = len(r)
		}
	}
	// deterministic order
	for i := range keys {
		for j := i + 1; j < len(keys); j++ {
			if keys[j] < keys[i] {
				keys[i], keys[j] = keys[j], keys[i]
			}
		}
	}
	out := make([]slot, 0, len(s.s)*maxLen)
	for _, sl := range s.s {
		if sl.b.IsConst() {
			c := byte(sl.b.Val)
			if r, ok := repl[c]; ok {
				for i := 0; i < len(r); i++ {
					out = append(out, slot{sl.g, F.BV(uint64(r[i]), 8)})
				}
			} else {
				out = append(out, sl)
			}
			continue
		}
		is := map[byte]*smt.Term{}
		for _, c := range keys {
			is[c] = F.Eq(sl.b, F.BV(uint64(c), 8))
		}
		for j := 0; j < maxLen; j++ {
			var present []*smt.Term
			byteT := sl.b
			if j > 0 {
				byteT = F.BV(0, 8)
			}
			special := []*smt.Term{}
			for _, c := range keys {
				special = append(special, is[c])
				r := repl[c]
				if j < len(r) {
					present = append(present, is[c])
					byteT = F.Ite(is[c], F.BV(uint64(r[j]), 8), byteT)
				}
			}
			var g *smt.Term
			if j == 0 {
				// present unless the byte is deleted (empty replacement)
				var deleted []*smt.Term
				for _, c := range keys {
					if len(repl[c]) == 0 {
						deleted = append(deleted, is[c])
					}
				}
				g = F.And(sl.g, F.Not(F.Or(deleted...)))
			} else {
				g = F.And(sl.g, F.Or(present...))
			}
			if g.IsFalse() {
				continue
			}
			out = append(out, slot{g, byteT})
		}
	}
	return &Str{s: out}
}

var stdHTMLEscape = map[byte]string{'&': "&amp;", '\'': "&#39;", '<': "&lt;", '>': "&gt;", '"': "&#34;"}
var xnetHTMLEscape = map[byte]string{'&': "&amp;", '\'': "&#39;", '<': "&lt;", '>': "&gt;", '"': "&#34;", '\r': "&#13;"}

func (L strLib) toLower(s *Str) *Str {
	F := L.F
	out := make([]slot, len(s.s))
	for k, sl := range s.s {
		up := F.And(F.Ule(F.BV('A', 8), sl.b), F.Ule(sl.b, F.BV('Z', 8)))
		out[k] = slot{sl.g, F.Ite(up, F.Add(sl.b, F.BV(32, 8)), sl.b)}
	}
	return &Str{s: out}
}

func (L strLib) toUpper(s *Str) *Str {
	F := L.F
	out := make([]slot, len(s.s))
	for k, sl := range s.s {
		lo := F.And(F.Ule(F.BV('a', 8), sl.b), F.Ule(sl.b, F.BV('z', 8)))
		out[k] = slot{sl.g, F.Ite(lo, F.Sub(sl.b, F.BV(32, 8)), sl.b)}
	}
	return &Str{s: out}
}

// splitByte splits on a single separator byte into exactly nparts parts
// (the caller has fixed the number of separators to nparts-1, or for SplitN
// the last part keeps the remaining separators).
func (L strLib) splitByte(s *Str, sep byte, nparts int, lastKeepsRest bool) []*Str {
	F := L.F
	n := len(s.s)
	isSep := make([]*smt.Term, n)
	idx := make([]*smt.Term, n) // number of separators before k
	cur := F.BV(0, posW)
	for k, sl := range s.s {
		isSep[k] = F.And(sl.g, F.Eq(sl.b, F.BV(uint64(sep), 8)))
		idx[k] = cur
		cur = F.Add(cur, F.Ite(isSep[k], F.BV(1, posW), F.BV(0, posW)))
	}
	parts := make([]*Str, nparts)
	for p := 0; p < nparts; p++ {
		pi := F.BV(uint64(p), posW)
		out := make([]slot, 0, n)
		for k, sl := range s.s {
			var g *smt.Term
			if lastKeepsRest && p == nparts-1 {
				// simplify: slot belongs to the tail iff it comes after the p-th separator:
				// (#separators before k) >= p, and it is not itself one of the first p separators.
				afterPth := F.Ule(pi, idx[k])
				isEarlySep := F.And(isSep[k], F.Ult(idx[k], pi))
				g = F.And(sl.g, afterPth, F.Not(isEarlySep))
			} else {
				g = F.And(sl.g, F.Eq(idx[k], pi), F.Not(isSep[k]))
			}
			if g.IsFalse() {
				continue
			}
			out = append(out, slot{g, sl.b})
		}
		parts[p] = &Str{s: out}
	}
	return parts
}

// replaceByte replaces every occurrence of one byte by a string.
func (L strLib) replaceByte(s *Str, old byte, new string) *Str {
	return L.mapBytes(s, map[byte]string{old: new})
}

// collapseSpaces models regexp `\s+` -> " ": each maximal run of ASCII
// whitespace becomes one space.
func (L strLib) collapseSpaces(s *Str) *Str {
	F := L.F
	out := make([]slot, 0, len(s.s))
	prevSpace := F.False // previous present byte was whitespace
	for _, sl := range s.s {
		sp := L.inSet(sl.b, asciiSpace)
		g := F.And(sl.g, F.Not(F.And(sp, prevSpace)))
		b := F.Ite(sp, F.BV(' ', 8), sl.b)
		if !g.IsFalse() {
			out = append(out, slot{g, b})
		}
		prevSpace = F.Ite(sl.g, sp, prevSpace)
	}
	return &Str{s: out}
}

// evalStr evaluates a symbolic string under a model.
func (L strLib) evalStr(s *Str, m smt.Model, memo map[int]uint64) string {
	buf := make([]byte, 0, len(s.s))
	for _, sl := range s.s {
		if L.F.EvalMemo(sl.g, m, memo) == 1 {
			buf = append(buf, byte(L.F.EvalMemo(sl.b, m, memo)))
		}
	}
	return string(buf)
}

// htmlShape runs a simplified HTML5 tokenizer state machine over the slots
// and returns (number of tag opens, number of double quotes inside tags) as
// BV16 terms. States: text, after '<', in tag, in "..." value, in '...' value.
func (L strLib) htmlShape(s *Str) (tagOpens, quotes *smt.Term) {
	F := L.F
	text, lt, tag, dq, sq := F.True, F.False, F.False, F.False, F.False
	tagOpens, quotes = F.BV(0, posW), F.BV(0, posW)
	one, zero := F.BV(1, posW), F.BV(0, posW)
	isC := func(b *smt.Term, c byte) *smt.Term { return F.Eq(b, F.BV(uint64(c), 8)) }
	for _, sl := range s.s {
		b := sl.b
		isLT := isC(b, '<')
		isGT := isC(b, '>')
		isDQ := isC(b, '"')
		isSQ := isC(b, '\'')
		letter := F.Or(
			F.And(F.Ule(F.BV('a', 8), b), F.Ule(b, F.BV('z', 8))),
			F.And(F.Ule(F.BV('A', 8), b), F.Ule(b, F.BV('Z', 8))),
			isC(b, '/'), isC(b, '!'), isC(b, '?'))
		open := F.And(lt, letter)
		nText := F.Or(F.And(text, F.Not(isLT)), F.And(lt, F.Not(letter), F.Not(isLT)), F.And(tag, isGT))
		nLT := F.Or(F.And(text, isLT), F.And(lt, isLT))
		nTag := F.Or(open, F.And(tag, F.Not(isGT), F.Not(isDQ), F.Not(isSQ)), F.And(dq, isDQ), F.And(sq, isSQ))
		nDQ := F.Or(F.And(tag, isDQ), F.And(dq, F.Not(isDQ)))
		nSQ := F.Or(F.And(tag, isSQ), F.And(sq, F.Not(isSQ)))
		q := F.Or(F.And(tag, isDQ), F.And(dq, isDQ))
		tagOpens = F.Add(tagOpens, F.Ite(F.And(sl.g, open), one, zero))
		quotes = F.Add(quotes, F.Ite(F.And(sl.g, q), one, zero))
		text = F.Ite(sl.g, nText, text)
		lt = F.Ite(sl.g, nLT, lt)
		tag = F.Ite(sl.g, nTag, tag)
		dq = F.Ite(sl.g, nDQ, dq)
		sq = F.Ite(sl.g, nSQ, sq)
	}
	return
}

// htmlShapeNative is the same machine on a concrete string (used by tests).
func htmlShapeNative(s string) (tagOpens, quotes int) {
	const (
		text = iota
		lt
		tag
		dq
		sq
	)
	st := text
	for i := 0; i < len(s); i++ {
		c := s[i]
		letter := c >= 'a' && c <= 'z' || c >= 'A' && c <= 'Z' || c == '/' || c == '!' || c == '?'
		switch st {
		case text:
			if c == '<' {
				st = lt
			}
		case lt:
			switch {
			case letter:
				st = tag
				tagOpens++
			case c == '<':
			default:
				st = text
			}
		case tag:
			switch c {
			case '>':
				st = text
			case '"':
				st = dq
				quotes++
			case '\'':
				st = sq
			}
		case dq:
			if c == '"' {
				st = tag
				quotes++
			}
		case sq:
			if c == '\'' {
				st = tag
			}
		}
	}
	return
}

// unescapeRefs decodes the character references listed in table (names
// without the leading '&', with their terminator, e.g. "amp;") and leaves
// every other byte alone. For each slot a backward pass computes whether
// the present slots from there on spell a name; a forward pass then drops
// the slots consumed by a decoded reference.
func (L strLib) unescapeRefs(s *Str, table map[string]byte) *Str {
	F := L.F
	n := len(s.s)
	names := make([]string, 0, len(table))
	for k := range table {
		names = append(names, k)
	}
	for i := range names {
		for j := i + 1; j < len(names); j++ {
			if names[j] < names[i] {
				names[i], names[j] = names[j], names[i]
			}
		}
	}
	// M[e][k][j]: the present slots from k on start with names[e][j:]
	start := make([][]*smt.Term, len(names)) // start[e][k]: slot k is '&' and the name follows
	for e, name := range names {
		m := len(name)
		next := make([]*smt.Term, m+1)
		for j := 0; j <= m; j++ {
			next[j] = F.False
		}
		next[m] = F.True
		rows := make([][]*smt.Term, n+1)
		rows[n] = next
		for k := n - 1; k >= 0; k-- {
			cur := make([]*smt.Term, m+1)
			cur[m] = F.True
			sl := s.s[k]
			for j := 0; j < m; j++ {
				hit := F.And(F.Eq(sl.b, F.BV(uint64(name[j]), 8)), rows[k+1][j+1])
				cur[j] = F.Ite(sl.g, hit, rows[k+1][j])
			}
			rows[k] = cur
		}
		start[e] = make([]*smt.Term, n)
		for k := 0; k < n; k++ {
			sl := s.s[k]
			start[e][k] = F.And(sl.g, F.Eq(sl.b, F.BV('&', 8)), rows[k+1][0])
		}
	}
	const rw = 4 // remaining-to-skip counter width (names are shorter than 16)
	rem := F.BV(0, rw)
	out := make([]slot, 0, n)
	for k := 0; k < n; k++ {
		sl := s.s[k]
		skipping := F.Not(F.Eq(rem, F.BV(0, rw)))
		g := F.And(sl.g, F.Not(skipping))
		b := sl.b
		newRem := F.Ite(F.And(sl.g, skipping), F.Sub(rem, F.BV(1, rw)), rem)
		for e, name := range names {
			st := F.And(start[e][k], F.Not(skipping))
			b = F.Ite(st, F.BV(uint64(table[name]), 8), b)
			newRem = F.Ite(st, F.BV(uint64(len(name)), rw), newRem)
		}
		rem = newRem
		if !g.IsFalse() {
			out = append(out, slot{g, b})
		}
	}
	return &Str{s: out}
}

// the references the engine under test and the formatter can emit
// (and the legacy spellings without a semicolon, which parsers accept too)
var basicRefs = map[string]byte{"amp;": '&', "lt;": '<', "gt;": '>', "quot;": '"', "#34;": '"', "#39;": '\'', "#13;": '\r',
	"amp": '&', "lt": '<', "gt": '>', "quot": '"'}
