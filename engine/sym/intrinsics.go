package sym

// Models of the standard-library surface the anchored code touches
// (DESIGN.md §3.4, A.1). Every model folds to the real function's result on
// concrete arguments (selftest compares them), and is symbolic otherwise.

import (
	"fmt"
	"go/token"
	"go/types"
	"html"
	"path"
	"path/filepath"
	"sort"
	"strconv"
	"strings"

	xhtml "golang.org/x/net/html"
	"golang.org/x/tools/go/ssa"

	"verif/engine/smt"
)

var intrinsics = map[string]externalFn{}

func init() {
	for k, v := range map[string]externalFn{
		// strings
		"strings.Contains":     inStringsContains,
		"strings.ContainsAny":  inStringsContainsAny,
		"strings.ContainsRune": inStringsContainsRune,
		"strings.Index":        inStringsIndex,
		"strings.IndexByte":    inStringsIndexByte,
		"strings.IndexRune":    inStringsIndexByte,
		"strings.IndexAny":     inStringsIndexAny,
		"strings.LastIndex":    inStringsLastIndex,
		"strings.LastIndexAny": inStringsLastIndexAny,
		"strings.Count":        inStringsCount,
		"strings.HasPrefix":    inStringsHasPrefix,
		"strings.HasSuffix":    inStringsHasSuffix,
		"strings.TrimSpace":    inStringsTrimSpace,
		"strings.Trim":         func(fr *frame, a []value) value { return inStringsTrimSet(fr, a, true, true) },
		"strings.TrimLeft":     func(fr *frame, a []value) value { return inStringsTrimSet(fr, a, true, false) },
		"strings.TrimRight":    func(fr *frame, a []value) value { return inStringsTrimSet(fr, a, false, true) },
		"strings.TrimPrefix":   inStringsTrimPrefix,
		"strings.TrimSuffix":   inStringsTrimSuffix,
		"strings.ToLower":      inStringsToLower,
		"strings.ToUpper":      inStringsToUpper,
		"strings.Split":        func(fr *frame, a []value) value { return inStringsSplit(fr, a[0], a[1], -1) },
		"strings.SplitN": func(fr *frame, a []value) value {
			return inStringsSplit(fr, a[0], a[1], int(asInt64(fr.i.concretize(a[2]))))
		},
		"strings.Join":       inStringsJoin,
		"strings.Repeat":     inStringsRepeat,
		"strings.ReplaceAll": func(fr *frame, a []value) value { return inStringsReplace(fr, a[0], a[1], a[2], -1) },
		"strings.Replace": func(fr *frame, a []value) value {
			return inStringsReplace(fr, a[0], a[1], a[2], int(asInt64(fr.i.concretize(a[3]))))
		},
		"strings.Fields":         inStringsFields,
		"strings.EqualFold":      inStringsEqualFold,
		"strings.Title":          func(fr *frame, a []value) value { return strings.Title(fr.i.concStr(a[0])) },
		"strings.NewReader":      inNewReader,
		"(*strings.Reader).Read": inReaderRead,
		"(*bytes.Reader).Read":   inReaderRead,
		"(*strings.Reader).Len":  inReaderLen,
		"(*bytes.Reader).Len":    inReaderLen,

		"(*strings.Builder).WriteString": inBuilderWriteString,
		"(*strings.Builder).WriteByte":   inBuilderWriteByte,
		"(*strings.Builder).WriteRune":   inBuilderWriteRune,
		"(*strings.Builder).Write":       inBuilderWrite,
		"(*strings.Builder).String":      inBuilderString,
		"(*strings.Builder).Len":         inBuilderLen,
		"(*strings.Builder).Reset":       inBuilderReset,
		"(*strings.Builder).Grow":        func(fr *frame, a []value) value { return nil },
		"(*strings.Builder).Cap":         inBuilderLen,

		"(*bytes.Buffer).WriteString": inBufferWriteString,
		"(*bytes.Buffer).WriteByte":   inBufferWriteByte,
		"(*bytes.Buffer).WriteRune":   inBufferWriteRune,
		"(*bytes.Buffer).Write":       inBufferWrite,
		"(*bytes.Buffer).String":      inBufferString,
		"(*bytes.Buffer).Bytes":       inBufferBytes,
		"(*bytes.Buffer).Len":         inBufferLen,
		"(*bytes.Buffer).Reset":       inBufferReset,
		"(*bytes.Buffer).Grow":        func(fr *frame, a []value) value { return nil },
		"(*bytes.Buffer).WriteTo":     inBufferWriteTo,
		"bytes.NewReader":             inNewReader,
		"bytes.NewBufferString":       inNewBufferString,
		"bytes.NewBuffer":             inNewBufferString,
		"bytes.HasPrefix":             func(fr *frame, a []value) value { return inStringsHasPrefix(fr, bytesArgs(fr, a)) },
		"bytes.HasSuffix":             func(fr *frame, a []value) value { return inStringsHasSuffix(fr, bytesArgs(fr, a)) },
		"bytes.Contains":              func(fr *frame, a []value) value { return inStringsContains(fr, bytesArgs(fr, a)) },
		"bytes.Index":                 func(fr *frame, a []value) value { return inStringsIndex(fr, bytesArgs(fr, a)) },
		"bytes.TrimSpace": func(fr *frame, a []value) value {
			return fr.i.strToBytes(inStringsTrimSpace(fr, bytesArgs(fr, a)))
		},

		"html.EscapeString":                    func(fr *frame, a []value) value { return inEscape(fr, a[0], stdHTMLEscape) },
		"golang.org/x/net/html.EscapeString":   func(fr *frame, a []value) value { return inEscape(fr, a[0], xnetHTMLEscape) },
		"html.UnescapeString":                  func(fr *frame, a []value) value { return html.UnescapeString(fr.i.concStr(a[0])) },
		"golang.org/x/net/html.UnescapeString": func(fr *frame, a []value) value { return xhtml.UnescapeString(fr.i.concStr(a[0])) },

		"fmt.Sprint":   inFmtSprint,
		"fmt.Sprintf":  inFmtSprintf,
		"fmt.Sprintln": func(fr *frame, a []value) value { return fr.i.concatV(inFmtSprintSep(fr, a[0].([]value), true), "\n") },
		"fmt.Errorf":   inFmtErrorf,
		"fmt.Fprintf":  inFmtFprintf,
		"fmt.Fprint":   inFmtFprint,
		"errors.New":   func(fr *frame, a []value) value { return fr.i.newError(a[0], iface{}) },
		"errors.Unwrap": func(fr *frame, a []value) value {
			if _, w, ok := errParts(a[0].(iface)); ok {
				return w
			}
			return iface{}
		},
		"errors.Is": inErrorsIs,

		"strconv.Itoa":       func(fr *frame, a []value) value { return fr.i.fmtInt(a[0]) },
		"strconv.Atoi":       inStrconvAtoi,
		"strconv.ParseInt":   inStrconvParseInt,
		"strconv.ParseUint":  inStrconvParseUint,
		"strconv.ParseFloat": inStrconvParseFloat,
		"strconv.ParseBool":  inStrconvParseBool,
		"strconv.Quote":      func(fr *frame, a []value) value { return strconv.Quote(fr.i.concStr(a[0])) },
		"strconv.FormatInt": func(fr *frame, a []value) value {
			return strconv.FormatInt(asInt64(fr.i.concretize(a[0])), int(asInt64(a[1])))
		},

		"path.Dir":            func(fr *frame, a []value) value { return path.Dir(fr.i.concStr(a[0])) },
		"path.Base":           func(fr *frame, a []value) value { return path.Base(fr.i.concStr(a[0])) },
		"path.Ext":            func(fr *frame, a []value) value { return path.Ext(fr.i.concStr(a[0])) },
		"path.Clean":          func(fr *frame, a []value) value { return path.Clean(fr.i.concStr(a[0])) },
		"path/filepath.Dir":   func(fr *frame, a []value) value { return filepath.Dir(fr.i.concStr(a[0])) },
		"path/filepath.Base":  func(fr *frame, a []value) value { return filepath.Base(fr.i.concStr(a[0])) },
		"path/filepath.Ext":   func(fr *frame, a []value) value { return filepath.Ext(fr.i.concStr(a[0])) },
		"path/filepath.Clean": func(fr *frame, a []value) value { return filepath.Clean(fr.i.concStr(a[0])) },
		"path/filepath.Join":  func(fr *frame, a []value) value { return filepath.Join(fr.i.concStrs(a[0])...) },
		"path.Join":           func(fr *frame, a []value) value { return path.Join(fr.i.concStrs(a[0])...) },
		"path.Match": func(fr *frame, a []value) value {
			ok, err := path.Match(fr.i.concStr(a[0]), fr.i.concStr(a[1]))
			return tuple{ok, fr.i.errOrNil(err)}
		},

		"io.WriteString": inIoWriteString,
		"io.ReadAll":     inIoReadAll,
		"io.Copy":        inIoCopy,

		"sort.Strings": inSortStrings,
		"sort.Slice":   inSortSlice,

		"(*sync.Mutex).Lock":      func(fr *frame, a []value) value { fr.i.lockOp(a[0], lockExcl, true); return nil },
		"(*sync.Mutex).Unlock":    func(fr *frame, a []value) value { fr.i.lockOp(a[0], lockExcl, false); return nil },
		"(*sync.RWMutex).Lock":    func(fr *frame, a []value) value { fr.i.lockOp(a[0], lockExcl, true); return nil },
		"(*sync.RWMutex).Unlock":  func(fr *frame, a []value) value { fr.i.lockOp(a[0], lockExcl, false); return nil },
		"(*sync.RWMutex).RLock":   func(fr *frame, a []value) value { fr.i.lockOp(a[0], lockShared, true); return nil },
		"(*sync.RWMutex).RUnlock": func(fr *frame, a []value) value { fr.i.lockOp(a[0], lockShared, false); return nil },
		"(*sync.Once).Do":         inOnceDo,
		"(*sync.Pool).Get":        inPoolGet,
		"(*sync.Pool).Put":        inPoolPut,

		"unicode.IsSpace": func(fr *frame, a []value) value {
			return fr.i.runeIn(a[0], asciiSpace)
		},
		"unicode.IsUpper": func(fr *frame, a []value) value { return fr.i.runeRange(a[0], 'A', 'Z') },
		"unicode.IsLower": func(fr *frame, a []value) value { return fr.i.runeRange(a[0], 'a', 'z') },
		"unicode.IsDigit": func(fr *frame, a []value) value { return fr.i.runeRange(a[0], '0', '9') },
		"unicode.IsLetter": func(fr *frame, a []value) value {
			i := fr.i
			return i.mkBool(i.F.Or(i.boolTerm(i.runeRange(a[0], 'a', 'z')), i.boolTerm(i.runeRange(a[0], 'A', 'Z'))))
		},
		"unicode.ToLower": func(fr *frame, a []value) value {
			i := fr.i
			t, k := i.intTerm(a[0])
			up := i.boolTerm(i.runeRange(a[0], 'A', 'Z'))
			return i.mkIntT(i.F.Ite(up, i.F.Add(t, i.F.BV(32, t.W)), t), k)
		},
		"unicode.ToUpper": func(fr *frame, a []value) value {
			i := fr.i
			t, k := i.intTerm(a[0])
			lo := i.boolTerm(i.runeRange(a[0], 'a', 'z'))
			return i.mkIntT(i.F.Ite(lo, i.F.Sub(t, i.F.BV(32, t.W)), t), k)
		},
		"unicode/utf8.RuneLen": func(fr *frame, a []value) value { return 1 },
		"unicode/utf8.RuneCountInString": func(fr *frame, a []value) value {
			if s, ok := a[0].(string); ok {
				return len([]rune(s))
			}
			return fr.i.mkIntT(fr.i.L.length(fr.i.strOf(a[0])), types.Int)
		},
	} {
		intrinsics[k] = v
	}
}

func inNop(fr *frame, args []value) value { return nil }

// ---- helpers ---------------------------------------------------------------------

// concStr returns the concrete value of a string argument, determinising or
// forking when it is symbolic.
func (i *interpreter) concStr(v value) string {
	switch x := v.(type) {
	case string:
		return x
	case symStr:
		if c, ok := i.determinedStr(x.Str); ok {
			return c
		}
		return i.concretizeStrSlots(x.Str)
	case symBytes:
		return i.concStr(symStr{x.Str})
	case []value:
		return i.concStr(i.mkStr(i.bytesToStr(x)))
	}
	panic(fmt.Sprintf("concStr: %T", v))
}

func (i *interpreter) concStrs(v value) []string {
	var out []string
	if v == nil {
		return out
	}
	for _, e := range v.([]value) {
		out = append(out, i.concStr(e))
	}
	return out
}

func bytesArgs(fr *frame, a []value) []value {
	out := make([]value, len(a))
	for k, x := range a {
		switch y := x.(type) {
		case symBytes:
			out[k] = symStr{y.Str}
		case []value:
			out[k] = fr.i.mkStr(fr.i.bytesToStr(y))
		case nil:
			out[k] = ""
		default:
			out[k] = x
		}
	}
	return out
}

func (i *interpreter) errOrNil(err error) value {
	if err == nil {
		return iface{}
	}
	return i.newError(err.Error(), iface{})
}

func (i *interpreter) concatV(a, b value) value {
	if x, ok := a.(string); ok {
		if y, ok := b.(string); ok {
			return x + y
		}
	}
	return i.mkStr(i.L.concat(i.strOf(a), i.strOf(b)))
}

// concreteBytes returns the Go string of a fully concrete []byte value.
func concreteBytes(v value) (string, bool) {
	switch x := v.(type) {
	case nil:
		return "", true
	case []value:
		b := make([]byte, len(x))
		for k, e := range x {
			c, ok := e.(uint8)
			if !ok {
				return "", false
			}
			b[k] = c
		}
		return string(b), true
	}
	return "", false
}

func (i *interpreter) runeIn(r value, set string) value {
	t, _ := i.intTerm(r)
	var alts []*smt.Term
	for k := 0; k < len(set); k++ {
		alts = append(alts, i.F.Eq(t, i.F.BV(uint64(set[k]), t.W)))
	}
	return i.mkBool(i.F.Or(alts...))
}

func (i *interpreter) runeRange(r value, lo, hi byte) value {
	t, _ := i.intTerm(r)
	return i.mkBool(i.F.And(i.F.Sle(i.F.BV(uint64(lo), t.W), t), i.F.Sle(t, i.F.BV(uint64(hi), t.W))))
}

// patArg returns the (concrete) pattern argument.
func (i *interpreter) patArg(v value) string { return i.concStr(v) }

// ---- strings -----------------------------------------------------------------------

func inStringsContains(fr *frame, a []value) value {
	i := fr.i
	if s, ok := a[0].(string); ok {
		if p, ok := a[1].(string); ok {
			return strings.Contains(s, p)
		}
	}
	return i.mkBool(i.L.contains(i.strOf(a[0]), i.patArg(a[1])))
}

func inStringsContainsAny(fr *frame, a []value) value {
	i := fr.i
	return i.mkBool(i.L.containsAny(i.strOf(a[0]), i.patArg(a[1])))
}

func inStringsContainsRune(fr *frame, a []value) value {
	i := fr.i
	r := asInt64(i.concretize(a[1]))
	return i.mkBool(i.L.containsAny(i.strOf(a[0]), string(rune(r))))
}

func inStringsIndex(fr *frame, a []value) value {
	i := fr.i
	if s, ok := a[0].(string); ok {
		if p, ok := a[1].(string); ok {
			return strings.Index(s, p)
		}
	}
	return i.mkIntT(i.L.index(i.strOf(a[0]), i.patArg(a[1])), types.Int)
}

func inStringsIndexByte(fr *frame, a []value) value {
	i := fr.i
	c := asInt64(i.concretize(a[1]))
	return i.mkIntT(i.L.indexAny(i.strOf(a[0]), string(rune(c))), types.Int)
}

func inStringsIndexAny(fr *frame, a []value) value {
	i := fr.i
	return i.mkIntT(i.L.indexAny(i.strOf(a[0]), i.patArg(a[1])), types.Int)
}

func inStringsLastIndex(fr *frame, a []value) value {
	i := fr.i
	return i.mkIntT(i.L.lastIndex(i.strOf(a[0]), i.patArg(a[1])), types.Int)
}

func inStringsLastIndexAny(fr *frame, a []value) value {
	i := fr.i
	return i.mkIntT(i.L.lastIndexAny(i.strOf(a[0]), i.patArg(a[1])), types.Int)
}

func inStringsCount(fr *frame, a []value) value {
	i := fr.i
	return i.mkIntT(i.L.count(i.strOf(a[0]), i.patArg(a[1])), types.Int)
}

func inStringsHasPrefix(fr *frame, a []value) value {
	i := fr.i
	if p, ok := a[1].(string); ok {
		return i.mkBool(i.L.hasPrefix(i.strOf(a[0]), p))
	}
	// symbolic prefix: s[:len(p)] == p and len(p) <= len(s)
	s, p := i.strOf(a[0]), i.strOf(a[1])
	lp := i.L.length16(p)
	return i.mkBool(i.F.And(i.F.Ule(lp, i.L.length16(s)), i.L.eq(i.L.slice(s, nil, lp), p)))
}

func inStringsHasSuffix(fr *frame, a []value) value {
	i := fr.i
	return i.mkBool(i.L.hasSuffix(i.strOf(a[0]), i.patArg(a[1])))
}

func inStringsTrimSpace(fr *frame, a []value) value {
	i := fr.i
	if s, ok := a[0].(string); ok {
		return strings.TrimSpace(s)
	}
	return i.mkStr(i.L.trimSpace(i.strOf(a[0])))
}

func inStringsTrimSet(fr *frame, a []value, left, right bool) value {
	i := fr.i
	return i.mkStr(i.L.trimSet(i.strOf(a[0]), i.patArg(a[1]), left, right))
}

func inStringsTrimPrefix(fr *frame, a []value) value {
	i := fr.i
	return i.mkStr(i.L.trimPrefix(i.strOf(a[0]), i.patArg(a[1])))
}

func inStringsTrimSuffix(fr *frame, a []value) value {
	i := fr.i
	return i.mkStr(i.L.trimSuffix(i.strOf(a[0]), i.patArg(a[1])))
}

func inStringsToLower(fr *frame, a []value) value {
	i := fr.i
	if s, ok := a[0].(string); ok {
		return strings.ToLower(s)
	}
	return i.mkStr(i.L.toLower(i.strOf(a[0])))
}

func inStringsToUpper(fr *frame, a []value) value {
	i := fr.i
	if s, ok := a[0].(string); ok {
		return strings.ToUpper(s)
	}
	return i.mkStr(i.L.toUpper(i.strOf(a[0])))
}

func strsToValue(ss []string) value {
	out := make([]value, len(ss))
	for k, s := range ss {
		out[k] = s
	}
	return out
}

func inStringsSplit(fr *frame, sv, sepv value, n int) value {
	i := fr.i
	sep := i.patArg(sepv)
	if s, ok := sv.(string); ok {
		return strsToValue(strings.SplitN(s, sep, n))
	}
	if n == 0 {
		return []value(nil)
	}
	str := i.strOf(sv)
	if len(sep) != 1 {
		// multi-byte separators: only for determined strings
		return strsToValue(strings.SplitN(i.concStr(sv), sep, n))
	}
	cnt := i.L.count(str, sep) // 64-bit
	c := int(i.concretizeTerm(cnt))
	nparts := c + 1
	keepRest := false
	if n > 0 && nparts > n {
		nparts = n
		keepRest = true
	}
	parts := i.L.splitByte(str, sep[0], nparts, keepRest)
	out := make([]value, len(parts))
	for k, p := range parts {
		out[k] = i.mkStr(p)
	}
	return out
}

func inStringsJoin(fr *frame, a []value) value {
	i := fr.i
	var elems []value
	if a[0] != nil {
		elems = a[0].([]value)
	}
	res := &Str{}
	sep := i.strOf(a[1])
	for k, e := range elems {
		if k > 0 {
			res = i.L.concat(res, sep)
		}
		res = i.L.concat(res, i.strOf(e))
	}
	return i.mkStr(res)
}

func inStringsRepeat(fr *frame, a []value) value {
	i := fr.i
	n := int(asInt64(i.concretize(a[1])))
	if n < 0 {
		panic(targetPanic{iface{types.Typ[types.String], "strings: negative Repeat count"}})
	}
	res := &Str{}
	s := i.strOf(a[0])
	for k := 0; k < n; k++ {
		res = i.L.concat(res, s)
	}
	return i.mkStr(res)
}

func inStringsReplace(fr *frame, sv, oldv, newv value, n int) value {
	i := fr.i
	old := i.patArg(oldv)
	if s, ok := sv.(string); ok {
		if nw, ok := newv.(string); ok {
			return strings.Replace(s, old, nw, n)
		}
	}
	nw := i.patArg(newv)
	str := i.strOf(sv)
	if n < 0 && len(old) == 1 {
		return i.mkStr(i.L.replaceByte(str, old[0], nw))
	}
	// occurrences impossible -> unchanged
	if n != 0 && old != "" {
		if c := i.L.contains(str, old); c.IsFalse() || !i.feasible(c) {
			return sv
		}
	}
	return strings.Replace(i.concStr(sv), old, nw, n)
}

// feasible reports whether c can hold on the current path (no forking).
func (i *interpreter) feasible(c *smt.Term) bool {
	if c.IsConst() {
		return c.Val == 1
	}
	r := i.run
	i.goLive()
	if r.live && i.evalBool(c) {
		return true
	}
	res, _ := i.w.check(append(append([]*smt.Term{}, r.pc...), c))
	return res != smt.Unsat
}

func inStringsFields(fr *frame, a []value) value {
	return strsToValue(strings.Fields(fr.i.concStr(a[0])))
}

func inStringsEqualFold(fr *frame, a []value) value {
	i := fr.i
	return i.mkBool(i.L.eq(i.L.toLower(i.strOf(a[0])), i.L.toLower(i.strOf(a[1]))))
}

// readers are opaque boxes around their content: structure{content}
func inNewReader(fr *frame, a []value) value {
	var cell value = structure{a[0], 0}
	return &cell
}

func inReaderRead(fr *frame, a []value) value {
	i := fr.i
	box := (*a[0].(*value)).(structure)
	content := i.concStr(box[0])
	off := box[1].(int)
	p := a[1].([]value)
	if off >= len(content) {
		if len(p) == 0 {
			return tuple{0, iface{}}
		}
		return tuple{0, i.globalError("io.EOF")}
	}
	n := 0
	for n < len(p) && off+n < len(content) {
		p[n] = content[off+n]
		n++
	}
	box[1] = off + n
	return tuple{n, iface{}}
}

func inReaderLen(fr *frame, a []value) value {
	box := (*a[0].(*value)).(structure)
	return len(fr.i.concStr(box[0])) - box[1].(int)
}

func inEscape(fr *frame, s value, tab map[byte]string) value {
	i := fr.i
	if c, ok := s.(string); ok {
		if len(tab) == 5 {
			return html.EscapeString(c)
		}
		return xhtml.EscapeString(c)
	}
	return i.mkStr(i.L.mapBytes(i.strOf(s), tab))
}

// ---- strings.Builder / bytes.Buffer ---------------------------------------------------

func boxContent(i *interpreter, recv value, field int) *Str {
	p := recv.(*value)
	if p == nil {
		panic(runtimeError("invalid memory address or nil pointer dereference"))
	}
	c := (*p).(structure)[field]
	switch x := c.(type) {
	case string, symStr, symBytes:
		return i.strOf(x)
	case []value:
		return i.bytesToStr(x)
	case nil:
		return &Str{}
	}
	panic(fmt.Sprintf("boxContent: %T", c))
}

func boxSet(i *interpreter, recv value, field int, s *Str) {
	(*recv.(*value)).(structure)[field] = i.mkStr(s)
}

func boxAppend(i *interpreter, recv value, field int, s *Str) {
	boxSet(i, recv, field, i.L.concat(boxContent(i, recv, field), s))
}

// boxAppendV appends a string value; concrete content stays a Go string.
func boxAppendV(i *interpreter, recv value, field int, s value) {
	p := recv.(*value)
	if p == nil {
		panic(runtimeError("invalid memory address or nil pointer dereference"))
	}
	st := (*p).(structure)
	if add, ok := s.(string); ok {
		switch cur := st[field].(type) {
		case string:
			st[field] = cur + add
			return
		case nil:
			st[field] = add
			return
		case []value:
			if len(cur) == 0 {
				st[field] = add
				return
			}
		}
	}
	boxAppend(i, recv, field, i.strOf(s))
}

func (i *interpreter) runeStr(r value) *Str {
	if c, ok := r.(int32); ok {
		return i.L.lit(string(rune(c)))
	}
	t, k := i.intTerm(r)
	i.assume(i.F.Ult(i.F.Resize(t, 64, kindSigned(k)), i.F.BV(0x80, 64)), "WriteRune restricted to ASCII")
	return &Str{s: []slot{{i.F.True, i.F.Resize(t, 8, false)}}}
}

func (i *interpreter) byteStr(b value) *Str {
	t, _ := i.intTerm(b)
	return &Str{s: []slot{{i.F.True, i.F.Resize(t, 8, false)}}}
}

const builderField, bufferField = 1, 0

func inBuilderWriteString(fr *frame, a []value) value {
	boxAppendV(fr.i, a[0], builderField, a[1])
	return tuple{lenOf(fr.i, a[1]), iface{}}
}
func inBuilderWriteByte(fr *frame, a []value) value {
	boxAppend(fr.i, a[0], builderField, fr.i.byteStr(a[1]))
	return iface{}
}
func inBuilderWriteRune(fr *frame, a []value) value {
	boxAppend(fr.i, a[0], builderField, fr.i.runeStr(a[1]))
	return tuple{1, iface{}}
}
func inBuilderWrite(fr *frame, a []value) value {
	if c, ok := concreteBytes(a[1]); ok {
		boxAppendV(fr.i, a[0], builderField, c)
		return tuple{len(c), iface{}}
	}
	boxAppend(fr.i, a[0], builderField, fr.i.bytesToStr(a[1]))
	return tuple{lenOf(fr.i, a[1]), iface{}}
}
func inBuilderString(fr *frame, a []value) value {
	if c, ok := (*a[0].(*value)).(structure)[builderField].(string); ok {
		return c
	}
	return fr.i.mkStr(boxContent(fr.i, a[0], builderField))
}
func inBuilderLen(fr *frame, a []value) value {
	return fr.i.mkIntT(fr.i.L.length(boxContent(fr.i, a[0], builderField)), types.Int)
}
func inBuilderReset(fr *frame, a []value) value {
	(*a[0].(*value)).(structure)[builderField] = []value(nil)
	return nil
}

func inBufferWriteString(fr *frame, a []value) value {
	boxAppendV(fr.i, a[0], bufferField, a[1])
	return tuple{lenOf(fr.i, a[1]), iface{}}
}
func inBufferWriteByte(fr *frame, a []value) value {
	boxAppend(fr.i, a[0], bufferField, fr.i.byteStr(a[1]))
	return iface{}
}
func inBufferWriteRune(fr *frame, a []value) value {
	boxAppend(fr.i, a[0], bufferField, fr.i.runeStr(a[1]))
	return tuple{1, iface{}}
}
func inBufferWrite(fr *frame, a []value) value {
	if c, ok := concreteBytes(a[1]); ok {
		boxAppendV(fr.i, a[0], bufferField, c)
		return tuple{len(c), iface{}}
	}
	boxAppend(fr.i, a[0], bufferField, fr.i.bytesToStr(a[1]))
	return tuple{lenOf(fr.i, a[1]), iface{}}
}
func inBufferString(fr *frame, a []value) value {
	if a[0].(*value) == nil {
		return "<nil>"
	}
	if c, ok := (*a[0].(*value)).(structure)[bufferField].(string); ok {
		return c
	}
	return fr.i.mkStr(boxContent(fr.i, a[0], bufferField))
}
func inBufferBytes(fr *frame, a []value) value {
	return fr.i.strToBytes(fr.i.mkStr(boxContent(fr.i, a[0], bufferField)))
}
func inBufferLen(fr *frame, a []value) value {
	return fr.i.mkIntT(fr.i.L.length(boxContent(fr.i, a[0], bufferField)), types.Int)
}
func inBufferReset(fr *frame, a []value) value {
	(*a[0].(*value)).(structure)[bufferField] = []value(nil)
	return nil
}
func inNewBufferString(fr *frame, a []value) value {
	t := fr.fn.Signature.Results().At(0).Type()
	cell := zero(mustDeref(t))
	p := &cell
	switch x := a[0].(type) {
	case string, symStr:
		boxSet(fr.i, p, bufferField, fr.i.strOf(x))
	default:
		boxSet(fr.i, p, bufferField, fr.i.bytesToStr(x))
	}
	return p
}

func lenOf(i *interpreter, v value) value {
	switch x := v.(type) {
	case string:
		return len(x)
	case []value:
		return len(x)
	case nil:
		return 0
	case symStr:
		return i.mkIntT(i.L.length(x.Str), types.Int)
	case symBytes:
		return i.mkIntT(i.L.length(x.Str), types.Int)
	}
	panic(fmt.Sprintf("lenOf: %T", v))
}

// writeTo writes the string s to the io.Writer w; returns (n, err).
func (i *interpreter) writeTo(fr *frame, w iface, s value) (value, iface) {
	if w.t == nil {
		panic(runtimeError("invalid memory address or nil pointer dereference"))
	}
	switch w.t.String() {
	case "*strings.Builder":
		boxAppendV(i, w.v, builderField, s)
		return lenOf(i, s), iface{}
	case "*bytes.Buffer":
		boxAppendV(i, w.v, bufferField, s)
		return lenOf(i, s), iface{}
	}
	var b value
	switch x := s.(type) {
	case string, symStr:
		b = i.strToBytes(x)
	default:
		b = s
	}
	res := i.callMethod(fr, w, "Write", b).(tuple)
	return res[0], res[1].(iface)
}

// callMethod invokes method name on the dynamic type of recv.
func (i *interpreter) callMethod(fr *frame, recv iface, name string, args ...value) value {
	if recv.t == nil {
		panic(runtimeError("invalid memory address or nil pointer dereference"))
	}
	mset := i.prog.MethodSets.MethodSet(recv.t)
	for k := 0; k < mset.Len(); k++ {
		sel := mset.At(k)
		if sel.Obj().Name() == name {
			fn := i.prog.MethodValue(sel)
			return call(i, fr, token.NoPos, fn, append([]value{recv.v}, args...))
		}
	}
	panic(stop{kind: "unsupported", msg: fmt.Sprintf("no method %s on %s", name, recv.t)})
}

func (i *interpreter) hasMethod(t types.Type, name string) bool {
	if t == nil || t == errorType || t == rtypeType {
		return false
	}
	mset := i.prog.MethodSets.MethodSet(t)
	for k := 0; k < mset.Len(); k++ {
		if mset.At(k).Obj().Name() == name {
			return true
		}
	}
	return false
}

func inBufferWriteTo(fr *frame, a []value) value {
	i := fr.i
	content := i.mkStr(boxContent(i, a[0], bufferField))
	total := lenOf(i, content)
	if tc, ok := total.(int); ok && tc == 0 {
		inBufferReset(fr, a[:1])
		return tuple{int64(0), iface{}}
	}
	n, err := i.writeTo(fr, a[1].(iface), content)
	n64 := i.conv(types.Typ[types.Int64], types.Typ[types.Int], n)
	// like the real Buffer: the bytes the writer accepted are consumed, the
	// rest stays in the buffer; only a complete write resets it
	full := i.equalsV(types.Typ[types.Int], n, total)
	isFull := false
	switch f := full.(type) {
	case bool:
		isFull = f
	case symBool:
		isFull = i.branch(f.t)
	}
	if err.t != nil || !isFull {
		rest := i.slice(content, n, nil, nil)
		(*a[0].(*value)).(structure)[bufferField] = rest
		if err.t == nil {
			err = i.globalError("io.ErrShortWrite")
		}
		return tuple{n64, err}
	}
	inBufferReset(fr, a[:1])
	return tuple{n64, iface{}}
}

func inIoWriteString(fr *frame, a []value) value {
	n, err := fr.i.writeTo(fr, a[0].(iface), a[1])
	return tuple{n, err}
}

func inIoCopy(fr *frame, a []value) value {
	i := fr.i
	src := a[1].(iface)
	if src.t != nil && src.t.String() == "*bytes.Buffer" {
		content := i.mkStr(boxContent(i, src.v, bufferField))
		n, err := i.writeTo(fr, a[0].(iface), content)
		inBufferReset(fr, []value{src.v})
		// io.Copy reports a short write as an error
		if err.t == nil {
			want := lenOf(i, content)
			eq := i.equalsV(types.Typ[types.Int], n, want)
			short := false
			switch e := eq.(type) {
			case bool:
				short = !e
			case symBool:
				short = !i.branch(e.t)
			}
			if short {
				err = i.globalError("io.ErrShortWrite")
			}
		}
		return tuple{i.conv(types.Typ[types.Int64], types.Typ[types.Int], n), err}
	}
	panic(stop{kind: "unsupported", msg: "io.Copy from " + fmt.Sprint(src.t)})
}

func (i *interpreter) globalError(name string) iface {
	if e, ok := i.w.stdErrs[name]; ok {
		return e.(iface)
	}
	e := i.newError(stdErrorGlobals[name], iface{})
	i.w.stdErrs[name] = e
	return e.(iface)
}

// ---- sync ----------------------------------------------------------------------------

func inOnceDo(fr *frame, a []value) value {
	p := a[0].(*value)
	s := (*p).(structure)
	// sync.Once{ _ noCopy; done atomic.Uint32; m Mutex }: use the first field slot as a flag
	if done, ok := s[0].(bool); ok && done {
		return nil
	}
	s[0] = true
	if fr.i.race != nil {
		fr.i.race.paused++
		defer func() { fr.i.race.paused-- }()
	}
	call(fr.i, fr, token.NoPos, a[1], nil)
	return nil
}

// sync.Pool: Get returns a fresh object (New) — see DESIGN for the
// "any previously Put object" variant enabled per harness.
func inPoolGet(fr *frame, a []value) value {
	i := fr.i
	p := a[0].(*value)
	key := p
	if i.w.Cfg.PoolLIFO {
		if lst := i.pool[key]; len(lst) > 0 {
			v := lst[len(lst)-1]
			i.pool[key] = lst[:len(lst)-1]
			return v
		}
	}
	if i.w.Cfg.PoolReuse {
		if lst := i.pool[key]; len(lst) > 0 {
			// arbitrary choice: fresh object or any pooled one
			n := len(lst)
			ch := i.newInputInt("poolget", types.Uint8, 0, int64(n), true)
			k := int(asInt64(i.concretize(ch)))
			if k > 0 {
				v := lst[k-1]
				i.pool[key] = append(append([]value{}, lst[:k-1]...), lst[k:]...)
				return v
			}
		}
	}
	s := (*p).(structure)
	// field "New" is the last field of sync.Pool
	newFn := s[len(s)-1]
	switch f := newFn.(type) {
	case *ssa.Function:
		if f == nil {
			return iface{}
		}
	case nil:
		return iface{}
	}
	return call(i, fr, token.NoPos, newFn, nil)
}

func inPoolPut(fr *frame, a []value) value {
	i := fr.i
	if i.w.Cfg.PoolReuse || i.w.Cfg.PoolLIFO {
		if i.pool == nil {
			i.pool = map[*value][]value{}
		}
		p := a[0].(*value)
		i.pool[p] = append(i.pool[p], a[1])
	}
	return nil
}

// ---- sort -----------------------------------------------------------------------------

func inSortStrings(fr *frame, a []value) value {
	if a[0] == nil {
		return nil
	}
	x := a[0].([]value)
	ss := make([]string, len(x))
	for k := range x {
		ss[k] = fr.i.concStr(x[k])
	}
	sort.Strings(ss)
	for k := range x {
		x[k] = ss[k]
	}
	return nil
}

func inSortSlice(fr *frame, a []value) value {
	i := fr.i
	sl := a[0].(iface).v
	if sl == nil {
		return nil
	}
	x := sl.([]value)
	less := a[1]
	// insertion sort driven by the interpreted less(i, j), which indexes the
	// live slice; swap elements in place.
	for p := 1; p < len(x); p++ {
		for q := p; q > 0; q-- {
			r := call(i, fr, token.NoPos, less, []value{q, q - 1})
			var lt bool
			switch b := r.(type) {
			case bool:
				lt = b
			case symBool:
				lt = i.branch(b.t)
			}
			if !lt {
				break
			}
			x[q], x[q-1] = x[q-1], x[q]
		}
	}
	return nil
}

// ---- errors ------------------------------------------------------------------------------

func inErrorsIs(fr *frame, a []value) value {
	i := fr.i
	err, target := a[0].(iface), a[1].(iface)
	for depth := 0; depth < 32; depth++ {
		if err.t == nil {
			return target.t == nil
		}
		eq := i.equalsV(types.Universe.Lookup("error").Type(), err, target)
		if b, ok := eq.(bool); ok && b {
			return true
		}
		_, w, ok := errParts(err)
		if !ok {
			if i.hasMethod(err.t, "Unwrap") {
				w = i.callMethod(fr, err, "Unwrap").(iface)
			} else {
				return false
			}
		}
		err = w
	}
	return false
}

// ---- strconv -----------------------------------------------------------------------------

func (i *interpreter) numError(fn, s string, err error) value {
	return i.newError(err.Error(), iface{})
}

func inStrconvAtoi(fr *frame, a []value) value {
	i := fr.i
	s := i.concStr(a[0])
	n, err := strconv.Atoi(s)
	return tuple{n, i.errOrNil(err)}
}

func inStrconvParseInt(fr *frame, a []value) value {
	i := fr.i
	n, err := strconv.ParseInt(i.concStr(a[0]), int(asInt64(a[1])), int(asInt64(a[2])))
	return tuple{n, i.errOrNil(err)}
}

func inStrconvParseUint(fr *frame, a []value) value {
	i := fr.i
	n, err := strconv.ParseUint(i.concStr(a[0]), int(asInt64(a[1])), int(asInt64(a[2])))
	return tuple{n, i.errOrNil(err)}
}

func inStrconvParseFloat(fr *frame, a []value) value {
	i := fr.i
	n, err := strconv.ParseFloat(i.concStr(a[0]), int(asInt64(a[1])))
	return tuple{n, i.errOrNil(err)}
}

func inStrconvParseBool(fr *frame, a []value) value {
	i := fr.i
	n, err := strconv.ParseBool(i.concStr(a[0]))
	return tuple{n, i.errOrNil(err)}
}

func inIoReadAll(fr *frame, a []value) value {
	i := fr.i
	r := a[0].(iface)
	if r.t == nil {
		panic(runtimeError("invalid memory address or nil pointer dereference"))
	}
	switch r.t.String() {
	case "*strings.Reader", "*bytes.Reader":
		box := (*r.v.(*value)).(structure)
		off := box[1].(int)
		var rest value
		switch c := box[0].(type) {
		case string:
			if off > len(c) {
				off = len(c)
			}
			rest = c[off:]
			box[1] = len(c)
		case symStr, symBytes:
			if off != 0 {
				unsupported("io.ReadAll on a partially read symbolic reader")
			}
			rest = i.mkStr(i.strOf(c))
		default:
			s := i.concStr(c)
			rest = s[off:]
			box[1] = len(s)
		}
		return tuple{i.strToBytes(rest), iface{}}
	}
	var data []value
	for n := 0; n < 1<<16; n++ {
		buf := make([]value, 512)
		for k := range buf {
			buf[k] = byte(0)
		}
		res := i.callMethod(fr, r, "Read", buf).(tuple)
		cnt := int(asInt64(i.concretize(res[0])))
		data = append(data, buf[:cnt]...)
		if e := res[1].(iface); e.t != nil {
			if e.v == i.globalError("io.EOF").v {
				return tuple{data, iface{}}
			}
			return tuple{data, e}
		}
	}
	unsupported("io.ReadAll: reader does not end")
	return nil
}
