package sym

// Native handles: opaque objects of libraries that are not interpreted
// (regexp) and bridges that convert interpreter values to Go values.

import (
	"fmt"
	"regexp"
	"unicode/utf8"
)

type nativeObj struct{ v any }

func init() {
	// sync/atomic integers (used by harness filesystems): the value is the last field
	atomicField := func(a []value) *value {
		s := (*a[0].(*value)).(structure)
		return &s[len(s)-1]
	}
	// maps.Clone is implemented by the runtime
	intrinsics["maps.Clone"] = func(fr *frame, a []value) value {
		m, _ := a[0].(*smap)
		if m == nil {
			return (*smap)(nil)
		}
		c := &smap{keyT: m.keyT, ents: append([]smapEntry(nil), m.ents...)}
		return c
	}
	intrinsics["(*sync/atomic.Int64).Add"] = func(fr *frame, a []value) value {
		c := atomicField(a)
		*c = (*c).(int64) + a[1].(int64)
		return *c
	}
	intrinsics["(*sync/atomic.Int64).Load"] = func(fr *frame, a []value) value { return *atomicField(a) }
	intrinsics["(*sync/atomic.Int64).Store"] = func(fr *frame, a []value) value { *atomicField(a) = a[1]; return nil }
	// EncodeRune writes into its argument: done on the interpreter's slice
	intrinsics["unicode/utf8.EncodeRune"] = func(fr *frame, a []value) value {
		p := a[0].([]value)
		r := rune(asInt64(fr.i.concretize(a[1])))
		var buf [4]byte
		n := utf8.EncodeRune(buf[:], r)
		if n > len(p) {
			panic(runtimeError("index out of range"))
		}
		for k := 0; k < n; k++ {
			p[k] = buf[k]
		}
		return n
	}
	// ulid: arbitrary but pairwise distinct ids (the library's contract)
	intrinsics["github.com/titpetric/vuego/internal/ulid.String"] = func(fr *frame, a []value) value {
		fr.i.ulidCounter++
		return fmt.Sprintf("01ZZVERIF%017d", fr.i.ulidCounter)
	}
	intrinsics["(runtime.errorString).Error"] = func(fr *frame, a []value) value { return a[0] }
	intrinsics["regexp.MustCompile"] = func(fr *frame, a []value) value {
		var cell value = nativeObj{regexp.MustCompile(fr.i.concStr(a[0]))}
		return &cell
	}
	intrinsics["(*regexp.Regexp).FindStringSubmatch"] = func(fr *frame, a []value) value {
		re := (*a[0].(*value)).(nativeObj).v.(*regexp.Regexp)
		m := re.FindStringSubmatch(fr.i.concStr(a[1]))
		if m == nil {
			return []value(nil)
		}
		return strsToValue(m)
	}
	intrinsics["(*regexp.Regexp).MatchString"] = func(fr *frame, a []value) value {
		re := (*a[0].(*value)).(nativeObj).v.(*regexp.Regexp)
		return re.MatchString(fr.i.concStr(a[1]))
	}
	intrinsics["(*regexp.Regexp).ReplaceAllString"] = func(fr *frame, a []value) value {
		i := fr.i
		re := (*a[0].(*value)).(nativeObj).v.(*regexp.Regexp)
		if s, ok := a[1].(string); ok {
			return re.ReplaceAllString(s, i.concStr(a[2]))
		}
		// hand-written slot models keyed by the pattern text
		if re.String() == `\s+` && i.concStr(a[2]) == " " {
			return i.mkStr(i.L.collapseSpaces(i.strOf(a[1])))
		}
		return re.ReplaceAllString(i.concStr(a[1]), i.concStr(a[2]))
	}
	intrinsics["(*regexp.Regexp).FindAllStringSubmatch"] = func(fr *frame, a []value) value {
		re := (*a[0].(*value)).(nativeObj).v.(*regexp.Regexp)
		ms := re.FindAllStringSubmatch(fr.i.concStr(a[1]), int(asInt64(a[2])))
		out := make([]value, len(ms))
		for k, m := range ms {
			out[k] = strsToValue(m)
		}
		return out
	}
}
