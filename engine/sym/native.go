package sym

// Native handles: opaque objects of libraries that are not interpreted
// (regexp) and bridges that convert interpreter values to Go values.

import (
	"fmt"
	"go/token"
	"regexp"
	"unicode/utf8"
)

type nativeObj struct{ v any }

func init() {
	// sync/atomic integers (used by harness filesystems): the value is the last field
	atomicField := func(a []value) *value {
		s := (*a[0].(*value)).(structure)
		return &s[len(s)-1]
	}
	// sync.Map: an association list per receiver, keys of interface type.
	// (Operations are atomic by contract; the lock analysis treats them like
	// sync.Pool and sync.Once internals.)
	syncMapOf := func(fr *frame, recv value) *smap {
		p := recv.(*value)
		i := fr.i
		if i.syncMaps == nil {
			i.syncMaps = map[*value]*smap{}
		}
		m := i.syncMaps[p]
		if m == nil {
			m = newSmap(tEmptyIface)
			i.syncMaps[p] = m
		}
		return m
	}
	intrinsics["(*sync.Map).Load"] = func(fr *frame, a []value) value {
		v, ok := syncMapOf(fr, a[0]).lookup(fr.i, a[1])
		if !ok {
			return tuple{iface{}, false}
		}
		return tuple{v, true}
	}
	intrinsics["(*sync.Map).Store"] = func(fr *frame, a []value) value {
		syncMapOf(fr, a[0]).insert(fr.i, a[1], a[2])
		return nil
	}
	intrinsics["(*sync.Map).LoadOrStore"] = func(fr *frame, a []value) value {
		m := syncMapOf(fr, a[0])
		if v, ok := m.lookup(fr.i, a[1]); ok {
			return tuple{v, true}
		}
		m.insert(fr.i, a[1], a[2])
		return tuple{a[2], false}
	}
	intrinsics["(*sync.Map).LoadAndDelete"] = func(fr *frame, a []value) value {
		m := syncMapOf(fr, a[0])
		v, ok := m.lookup(fr.i, a[1])
		if !ok {
			return tuple{iface{}, false}
		}
		m.delete(fr.i, a[1])
		return tuple{v, true}
	}
	intrinsics["(*sync.Map).Delete"] = func(fr *frame, a []value) value {
		syncMapOf(fr, a[0]).delete(fr.i, a[1])
		return nil
	}
	intrinsics["(*sync.Map).Swap"] = func(fr *frame, a []value) value {
		m := syncMapOf(fr, a[0])
		v, ok := m.lookup(fr.i, a[1])
		m.insert(fr.i, a[1], a[2])
		if !ok {
			return tuple{iface{}, false}
		}
		return tuple{v, true}
	}
	intrinsics["(*sync.Map).Clear"] = func(fr *frame, a []value) value {
		syncMapOf(fr, a[0]).ents = nil
		return nil
	}
	intrinsics["(*sync.Map).Range"] = func(fr *frame, a []value) value {
		m := syncMapOf(fr, a[0])
		for _, e := range append([]smapEntry(nil), m.ents...) {
			r := call(fr.i, fr, token.NoPos, a[1], []value{e.k, e.v})
			if b, ok := r.(bool); ok && !b {
				break
			}
		}
		return nil
	}
	// maps.Clone is implemented by the runtime
	intrinsics["maps.Clone"] = func(fr *frame, a []value) value {
		m, _ := a[0].(*smap)
		if m == nil {
			return (*smap)(nil)
		}
		c := &smap{keyT: m.keyT, ents: append([]smapEntry(nil), m.ents...)}
		return c
	}
	intrinsics["(*sync/atomic.Int64).Add"] = func(fr *frame, a []value) value {
		c := atomicField(a)
		*c = (*c).(int64) + a[1].(int64)
		return *c
	}
	intrinsics["(*sync/atomic.Int64).Load"] = func(fr *frame, a []value) value { return *atomicField(a) }
	intrinsics["(*sync/atomic.Int64).Store"] = func(fr *frame, a []value) value { *atomicField(a) = a[1]; return nil }
	// EncodeRune writes into its argument: done on the interpreter's slice
	intrinsics["unicode/utf8.EncodeRune"] = func(fr *frame, a []value) value {
		p := a[0].([]value)
		r := rune(asInt64(fr.i.concretize(a[1])))
		var buf [4]byte
		n := utf8.EncodeRune(buf[:], r)
		if n > len(p) {
			panic(runtimeError("index out of range"))
		}
		for k := 0; k < n; k++ {
			p[k] = buf[k]
		}
		return n
	}
	// ulid: arbitrary but pairwise distinct ids (the library's contract)
	intrinsics["github.com/titpetric/vuego/internal/ulid.String"] = func(fr *frame, a []value) value {
		fr.i.ulidCounter++
		fr.i.stubStateAccess(fr, ulidPkgPath)
		return fmt.Sprintf("01ZZVERIF%017d", fr.i.ulidCounter)
	}
	intrinsics["(runtime.errorString).Error"] = func(fr *frame, a []value) value { return a[0] }
	intrinsics["regexp.MustCompile"] = func(fr *frame, a []value) value {
		var cell value = nativeObj{regexp.MustCompile(fr.i.concStr(a[0]))}
		return &cell
	}
	intrinsics["(*regexp.Regexp).FindStringSubmatch"] = func(fr *frame, a []value) value {
		re := (*a[0].(*value)).(nativeObj).v.(*regexp.Regexp)
		m := re.FindStringSubmatch(fr.i.concStr(a[1]))
		if m == nil {
			return []value(nil)
		}
		return strsToValue(m)
	}
	intrinsics["(*regexp.Regexp).MatchString"] = func(fr *frame, a []value) value {
		re := (*a[0].(*value)).(nativeObj).v.(*regexp.Regexp)
		return re.MatchString(fr.i.concStr(a[1]))
	}
	intrinsics["(*regexp.Regexp).ReplaceAllString"] = func(fr *frame, a []value) value {
		i := fr.i
		re := (*a[0].(*value)).(nativeObj).v.(*regexp.Regexp)
		if s, ok := a[1].(string); ok {
			return re.ReplaceAllString(s, i.concStr(a[2]))
		}
		// hand-written slot models keyed by the pattern text
		if re.String() == `\s+` && i.concStr(a[2]) == " " {
			return i.mkStr(i.L.collapseSpaces(i.strOf(a[1])))
		}
		return re.ReplaceAllString(i.concStr(a[1]), i.concStr(a[2]))
	}
	intrinsics["(*regexp.Regexp).FindAllStringSubmatch"] = func(fr *frame, a []value) value {
		re := (*a[0].(*value)).(nativeObj).v.(*regexp.Regexp)
		ms := re.FindAllStringSubmatch(fr.i.concStr(a[1]), int(asInt64(a[2])))
		out := make([]value, len(ms))
		for k, m := range ms {
			out[k] = strsToValue(m)
		}
		return out
	}
}
