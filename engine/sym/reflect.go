// Copyright 2013 The Go Authors. All rights reserved.
// Use of this source code is governed by a BSD-style
// license that can be found in the LICENSE file.

package sym

// Emulated "reflect" package.
//
// We completely replace the built-in "reflect" package.
// The only thing clients can depend upon are that reflect.Type is an
// interface and reflect.Value is an (opaque) struct.

import (
	"fmt"
	"go/token"
	"go/types"
	"reflect"
	"regexp"
	"unsafe"

	"golang.org/x/tools/go/ssa"
)

type opaqueType struct {
	types.Type
	name string
}

func (t *opaqueType) String() string { return t.name }

// A bogus "reflect" type-checker package.  Shared across interpreters.
var reflectTypesPackage = types.NewPackage("reflect", "reflect")

// rtype is the concrete type the interpreter uses to implement the
// reflect.Type interface.
//
// type rtype <opaque>
var rtypeType = makeNamedType("rtype", &opaqueType{nil, "rtype"})

// error is an (interpreted) named type whose underlying type is string.
// The interpreter uses it for all implementations of the built-in error
// interface that it creates.
// We put it in the "reflect" package for expedience.
//
// type error string
var errorType = makeNamedType("error", &opaqueType{nil, "error"})

func makeNamedType(name string, underlying types.Type) *types.Named {
	obj := types.NewTypeName(token.NoPos, reflectTypesPackage, name, nil)
	return types.NewNamed(obj, underlying, nil)
}

func makeReflectValue(t types.Type, v value) value {
	if t == nil {
		return structure{iface{}, iface{}, false}
	}
	return structure{rtype{t}, v, false}
}

func makeReflectValueRO(t types.Type, v value, ro bool) value {
	return structure{rtype{t}, v, ro}
}

// Given a reflect.Value, returns its rtype.
func rV2T(v value) rtype {
	if rt, ok := v.(structure)[0].(rtype); ok {
		return rt
	}
	panic(runtimeError("reflect: call of method on zero Value"))
}

func rvValid(v value) bool {
	_, ok := v.(structure)[0].(rtype)
	return ok
}

// roFlag distinguishes reflect's two read-only flags: a value reached
// through an unexported non-embedded field stays read-only (sticky); one
// reached through an unexported *embedded* field is read-only itself, but its
// exported fields are accessible again.
type roFlag int8

const (
	roNone   roFlag = 0
	roSticky roFlag = 1
	roEmbed  roFlag = 2
)

func rvFlag(v value) roFlag {
	s := v.(structure)
	if len(s) > 2 {
		switch b := s[2].(type) {
		case bool:
			if b {
				return roSticky
			}
		case roFlag:
			return b
		}
	}
	return roNone
}

func rvRO(v value) bool { return rvFlag(v) != roNone }

func makeReflectValueFlag(t types.Type, v value, f roFlag) value {
	if f == roNone {
		return structure{rtype{t}, v, false}
	}
	return structure{rtype{t}, v, f}
}

// Given a reflect.Value, returns the underlying interpreter value.
func rV2V(v value) value {
	return v.(structure)[1]
}

// makeReflectType boxes up an rtype in a reflect.Type interface.
func makeReflectType(rt rtype) value {
	return iface{rtypeType, rt}
}

func ext۰reflect۰rtype۰Bits(fr *frame, args []value) value {
	rt := args[0].(rtype).t
	basic, ok := rt.Underlying().(*types.Basic)
	if !ok {
		panic(fmt.Sprintf("reflect.Type.Bits(%T): non-basic type", rt))
	}
	return int(fr.i.sizes.Sizeof(basic)) * 8
}

func ext۰reflect۰rtype۰Elem(fr *frame, args []value) value {
	return makeReflectType(rtype{args[0].(rtype).t.Underlying().(interface {
		Elem() types.Type
	}).Elem()})
}

func structFieldValue(st *types.Struct, i int, index []int) value {
	f := st.Field(i)
	pkgPath := ""
	if !f.Exported() && f.Pkg() != nil {
		pkgPath = f.Pkg().Path()
	}
	idx := make([]value, len(index))
	for k, x := range index {
		idx[k] = x
	}
	return structure{
		f.Name(),
		pkgPath,
		makeReflectType(rtype{f.Type()}),
		st.Tag(i),
		uintptr(0),
		idx,
		f.Anonymous(),
	}
}

func ext۰reflect۰rtype۰Key(fr *frame, args []value) value {
	m, ok := args[0].(rtype).t.Underlying().(*types.Map)
	if !ok {
		panic(runtimeError("reflect: Key of non-map type"))
	}
	return makeReflectType(rtype{m.Key()})
}

func ext۰reflect۰rtype۰Field(fr *frame, args []value) value {
	st, ok := args[0].(rtype).t.Underlying().(*types.Struct)
	if !ok {
		panic(runtimeError("reflect: Field of non-struct type"))
	}
	i := args[1].(int)
	if i < 0 || i >= st.NumFields() {
		panic(runtimeError("reflect: Field index out of bounds"))
	}
	return structFieldValue(st, i, []int{i})
}

// findField implements Go's field-selection rule through embedded structs.
func findField(t types.Type, name string) (index []int, st *types.Struct, ok bool) {
	obj, idx, _ := types.LookupFieldOrMethod(t, false, nil, name)
	if obj == nil {
		// unexported names need the declaring package: search manually
		s, isStruct := t.Underlying().(*types.Struct)
		if !isStruct {
			return nil, nil, false
		}
		for i := 0; i < s.NumFields(); i++ {
			if s.Field(i).Name() == name {
				return []int{i}, s, true
			}
		}
		return nil, nil, false
	}
	if _, isVar := obj.(*types.Var); !isVar {
		return nil, nil, false
	}
	// walk to the struct that directly contains the field
	cur := t
	for k := 0; k < len(idx)-1; k++ {
		s := derefStruct(cur)
		cur = s.Field(idx[k]).Type()
	}
	return idx, derefStruct(cur), true
}

func derefStruct(t types.Type) *types.Struct {
	if p, ok := t.Underlying().(*types.Pointer); ok {
		t = p.Elem()
	}
	return t.Underlying().(*types.Struct)
}

func ext۰reflect۰rtype۰FieldByName(fr *frame, args []value) value {
	t := args[0].(rtype).t
	if _, ok := t.Underlying().(*types.Struct); !ok {
		panic(runtimeError("reflect: FieldByName of non-struct type " + t.String()))
	}
	name := fr.i.concretize(args[1]).(string)
	idx, st, ok := findField(t, name)
	if !ok {
		return tuple{zero(fr.i.w.structFieldType()), false}
	}
	return tuple{structFieldValue(st, idx[len(idx)-1], idx), true}
}

func ext۰reflect۰rtype۰In(fr *frame, args []value) value {
	i := args[1].(int)
	return makeReflectType(rtype{args[0].(rtype).t.Underlying().(*types.Signature).Params().At(i).Type()})
}

func ext۰reflect۰rtype۰Kind(fr *frame, args []value) value {
	return uint(reflectKind(args[0].(rtype).t))
}

func ext۰reflect۰rtype۰NumField(fr *frame, args []value) value {
	st, ok := args[0].(rtype).t.Underlying().(*types.Struct)
	if !ok {
		panic(runtimeError("reflect: NumField of non-struct type"))
	}
	return st.NumFields()
}

func ext۰reflect۰rtype۰NumIn(fr *frame, args []value) value {
	return args[0].(rtype).t.Underlying().(*types.Signature).Params().Len()
}

func ext۰reflect۰rtype۰IsVariadic(fr *frame, args []value) value {
	return args[0].(rtype).t.Underlying().(*types.Signature).Variadic()
}

func ext۰reflect۰rtype۰NumMethod(fr *frame, args []value) value {
	return fr.i.prog.MethodSets.MethodSet(args[0].(rtype).t).Len() // beware: falsely reports generic methods
}

func ext۰reflect۰rtype۰NumOut(fr *frame, args []value) value {
	return args[0].(rtype).t.Underlying().(*types.Signature).Results().Len()
}

func ext۰reflect۰rtype۰Out(fr *frame, args []value) value {
	i := args[1].(int)
	return makeReflectType(rtype{args[0].(rtype).t.Underlying().(*types.Signature).Results().At(i).Type()})
}

func ext۰reflect۰rtype۰Size(fr *frame, args []value) value {
	return uintptr(fr.i.sizes.Sizeof(args[0].(rtype).t))
}

var anyTokenRe = regexp.MustCompile(`\bany\b`)

func ext۰reflect۰rtype۰String(fr *frame, args []value) value {
	return rtypeString(args[0].(rtype))
}

// rtypeString spells a type the way reflect.Type.String does.
func rtypeString(rt rtype) string {
	s := types.TypeString(rt.t, func(p *types.Package) string { return p.Name() })
	// reflect spells the empty interface "interface {}"
	return anyTokenRe.ReplaceAllString(s, "interface {}")
}

func ext۰reflect۰rtype۰Name(fr *frame, args []value) value {
	switch t := args[0].(rtype).t.(type) {
	case *types.Named:
		return t.Obj().Name()
	case *types.Basic:
		return t.Name()
	}
	return ""
}

func ext۰reflect۰rtype۰AssignableTo(fr *frame, args []value) value {
	u := args[1].(iface).v.(rtype).t
	return types.AssignableTo(args[0].(rtype).t, u)
}

func ext۰reflect۰rtype۰ConvertibleTo(fr *frame, args []value) value {
	u := args[1].(iface).v.(rtype).t
	return types.ConvertibleTo(args[0].(rtype).t, u)
}

func ext۰reflect۰rtype۰Implements(fr *frame, args []value) value {
	u := args[1].(iface).v.(rtype).t
	it, ok := u.Underlying().(*types.Interface)
	if !ok {
		panic(runtimeError("reflect: non-interface type passed to Type.Implements"))
	}
	return types.Implements(args[0].(rtype).t, it)
}

func ext۰reflect۰New(fr *frame, args []value) value {
	t := args[0].(iface).v.(rtype).t
	alloc := zero(t)
	return makeReflectValue(types.NewPointer(t), &alloc)
}

func ext۰reflect۰SliceOf(fr *frame, args []value) value {
	return makeReflectType(rtype{types.NewSlice(args[0].(iface).v.(rtype).t)})
}

func ext۰reflect۰TypeOf(fr *frame, args []value) value {
	if args[0].(iface).t == nil {
		return iface{}
	}
	return makeReflectType(rtype{args[0].(iface).t})
}

func ext۰reflect۰ValueOf(fr *frame, args []value) value {
	itf := args[0].(iface)
	return makeReflectValue(itf.t, itf.v)
}

func ext۰reflect۰Zero(fr *frame, args []value) value {
	t := args[0].(iface).v.(rtype).t
	return makeReflectValue(t, zero(t))
}

func reflectKind(t types.Type) reflect.Kind {
	switch t := t.(type) {
	case *types.Named, *types.Alias:
		return reflectKind(t.Underlying())
	case *types.Basic:
		switch t.Kind() {
		case types.Bool:
			return reflect.Bool
		case types.Int:
			return reflect.Int
		case types.Int8:
			return reflect.Int8
		case types.Int16:
			return reflect.Int16
		case types.Int32:
			return reflect.Int32
		case types.Int64:
			return reflect.Int64
		case types.Uint:
			return reflect.Uint
		case types.Uint8:
			return reflect.Uint8
		case types.Uint16:
			return reflect.Uint16
		case types.Uint32:
			return reflect.Uint32
		case types.Uint64:
			return reflect.Uint64
		case types.Uintptr:
			return reflect.Uintptr
		case types.Float32:
			return reflect.Float32
		case types.Float64:
			return reflect.Float64
		case types.Complex64:
			return reflect.Complex64
		case types.Complex128:
			return reflect.Complex128
		case types.String:
			return reflect.String
		case types.UnsafePointer:
			return reflect.UnsafePointer
		}
	case *types.Array:
		return reflect.Array
	case *types.Chan:
		return reflect.Chan
	case *types.Signature:
		return reflect.Func
	case *types.Interface:
		return reflect.Interface
	case *types.Map:
		return reflect.Map
	case *types.Pointer:
		return reflect.Pointer
	case *types.Slice:
		return reflect.Slice
	case *types.Struct:
		return reflect.Struct
	}
	panic(fmt.Sprint("unexpected type: ", t))
}

func ext۰reflect۰Value۰Kind(fr *frame, args []value) value {
	if !rvValid(args[0]) {
		return uint(reflect.Invalid)
	}
	return uint(reflectKind(rV2T(args[0]).t))
}

func ext۰reflect۰Value۰String(fr *frame, args []value) value {
	if !rvValid(args[0]) {
		return "<invalid Value>"
	}
	v := rV2V(args[0])
	switch v.(type) {
	case string, symStr:
		return v
	}
	return "<" + rV2T(args[0]).t.String() + " Value>"
}

func ext۰reflect۰Value۰Type(fr *frame, args []value) value {
	return makeReflectType(rV2T(args[0]))
}

func ext۰reflect۰Value۰Uint(fr *frame, args []value) value {
	switch v := rV2V(args[0]).(type) {
	case uint:
		return uint64(v)
	case uint8:
		return uint64(v)
	case uint16:
		return uint64(v)
	case uint32:
		return uint64(v)
	case uint64:
		return uint64(v)
	case uintptr:
		return uint64(v)
	case symInt:
		return fr.i.mkIntT(fr.i.F.Resize(v.t, 64, false), types.Uint64)
	}
	panic(runtimeError("reflect: call of reflect.Value.Uint on non-uint Value"))
}

func ext۰reflect۰Value۰Len(fr *frame, args []value) value {
	switch v := rV2V(args[0]).(type) {
	case string:
		return len(v)
	case symStr:
		return fr.i.mkIntT(fr.i.L.length(v.Str), types.Int)
	case symBytes:
		return fr.i.mkIntT(fr.i.L.length(v.Str), types.Int)
	case array:
		return len(v)
	case []value:
		return len(v)
	case *smap:
		return v.len()
	default:
		panic(runtimeError(fmt.Sprintf("reflect: call of reflect.Value.Len on %s Value", reflectKind(rV2T(args[0]).t))))
	}
}

func ext۰reflect۰Value۰MapIndex(fr *frame, args []value) value {
	mt := rV2T(args[0]).t.Underlying().(*types.Map)
	tElem := mt.Elem()
	k := rV2V(args[1])
	if kt := rV2T(args[1]).t; !types.AssignableTo(kt, mt.Key()) {
		panic(runtimeError(fmt.Sprintf("reflect.Value.MapIndex: value of type %s is not assignable to type %s", kt, mt.Key())))
	}
	// an interface-keyed map stores its keys boxed with their dynamic type
	if _, isIface := mt.Key().Underlying().(*types.Interface); isIface {
		if _, boxed := k.(iface); !boxed {
			k = iface{rV2T(args[1]).t, k}
		}
	}
	switch m := rV2V(args[0]).(type) {
	case *smap:
		if v, ok := m.lookup(fr.i, k); ok {
			return makeReflectValue(tElem, v)
		}
	default:
		panic(fmt.Sprintf("(reflect.Value).MapIndex(%T, %T)", m, k))
	}
	return makeReflectValue(nil, nil)
}

func ext۰reflect۰Value۰MapKeys(fr *frame, args []value) value {
	var keys []value
	tKey := rV2T(args[0]).t.Underlying().(*types.Map).Key()
	switch v := rV2V(args[0]).(type) {
	case *smap:
		if v != nil {
			for _, e := range v.ents {
				keys = append(keys, makeReflectValue(tKey, e.k))
			}
		}
	default:
		panic(fmt.Sprintf("(reflect.Value).MapKeys(%T)", v))
	}
	return keys
}

func ext۰reflect۰Value۰NumField(fr *frame, args []value) value {
	s, ok := rV2V(args[0]).(structure)
	if !ok {
		panic(runtimeError("reflect: call of reflect.Value.NumField on non-struct Value"))
	}
	return len(s)
}

func ext۰reflect۰Value۰NumMethod(fr *frame, args []value) value {
	return fr.i.prog.MethodSets.MethodSet(rV2T(args[0]).t).Len()
}

func ext۰reflect۰Value۰Pointer(fr *frame, args []value) value {
	switch v := rV2V(args[0]).(type) {
	case *value:
		return uintptr(unsafe.Pointer(v))
	case []value:
		return reflect.ValueOf(v).Pointer()
	case *smap:
		return uintptr(unsafe.Pointer(v))
	case *ssa.Function:
		return uintptr(unsafe.Pointer(v))
	case *closure:
		return uintptr(unsafe.Pointer(v))
	default:
		panic(fmt.Sprintf("reflect.(Value).Pointer(%T)", v))
	}
}

func ext۰reflect۰Value۰Index(fr *frame, args []value) value {
	t := rV2T(args[0]).t.Underlying()
	ro := rvRO(args[0])
	switch v := rV2V(args[0]).(type) {
	case array:
		i := fr.i.indexInRange(args[1], int64(len(v)))
		return makeReflectValueRO(t.(*types.Array).Elem(), v[i], ro)
	case []value:
		i := fr.i.indexInRange(args[1], int64(len(v)))
		return makeReflectValueRO(t.(*types.Slice).Elem(), v[i], ro)
	case string:
		i := fr.i.indexInRange(args[1], int64(len(v)))
		return makeReflectValueRO(types.Typ[types.Uint8], v[i], ro)
	default:
		panic(runtimeError(fmt.Sprintf("reflect: call of reflect.Value.Index on %s Value", reflectKind(rV2T(args[0]).t))))
	}
}

func ext۰reflect۰Value۰Bool(fr *frame, args []value) value {
	return rV2V(args[0])
}

func ext۰reflect۰Value۰CanAddr(fr *frame, args []value) value {
	return false
}

func ext۰reflect۰Value۰CanInterface(fr *frame, args []value) value {
	if !rvValid(args[0]) {
		panic(runtimeError("reflect: call of reflect.Value.CanInterface on zero Value"))
	}
	return !rvRO(args[0])
}

func ext۰reflect۰Value۰Elem(fr *frame, args []value) value {
	ro := rvRO(args[0])
	switch x := rV2V(args[0]).(type) {
	case iface:
		if x.t == nil {
			return makeReflectValue(nil, nil)
		}
		return makeReflectValueRO(x.t, x.v, ro)
	case *value:
		if x == nil {
			return makeReflectValue(nil, nil)
		}
		et := rV2T(args[0]).t.Underlying().(*types.Pointer).Elem()
		return makeReflectValueRO(et, load(et, x), ro)
	default:
		panic(runtimeError(fmt.Sprintf("reflect: call of reflect.Value.Elem on %s Value", reflectKind(rV2T(args[0]).t))))
	}
}

func ext۰reflect۰Value۰Field(fr *frame, args []value) value {
	v := args[0]
	i := args[1].(int)
	st, ok := rV2T(v).t.Underlying().(*types.Struct)
	if !ok {
		panic(runtimeError("reflect: call of reflect.Value.Field on non-struct Value"))
	}
	if i < 0 || i >= st.NumFields() {
		panic(runtimeError("reflect: Field index out of range"))
	}
	f := st.Field(i)
	// inherit the sticky flag, clear the embedded one
	fl := roNone
	if rvFlag(v) == roSticky {
		fl = roSticky
	}
	if !f.Exported() {
		if f.Embedded() && fl == roNone {
			fl = roEmbed
		} else {
			fl = roSticky
		}
	}
	return makeReflectValueFlag(f.Type(), rV2V(v).(structure)[i], fl)
}

func ext۰reflect۰Value۰FieldByIndex(fr *frame, args []value) value {
	v := args[0]
	for _, ix := range args[1].([]value) {
		// step through embedded pointers
		if p, ok := rV2T(v).t.Underlying().(*types.Pointer); ok {
			pv := rV2V(v).(*value)
			if pv == nil {
				panic(runtimeError("reflect: indirection through nil pointer to embedded struct"))
			}
			v = makeReflectValueFlag(p.Elem(), load(p.Elem(), pv), rvFlag(v))
		}
		v = ext۰reflect۰Value۰Field(fr, []value{v, ix})
	}
	return v
}

// FieldByIndexErr reports a nil embedded pointer as an error instead of panicking.
func ext۰reflect۰Value۰FieldByIndexErr(fr *frame, args []value) value {
	v := args[0]
	for _, ix := range args[1].([]value) {
		if p, ok := rV2T(v).t.Underlying().(*types.Pointer); ok {
			pv := rV2V(v).(*value)
			if pv == nil {
				return tuple{makeReflectValue(nil, nil), fr.i.newError("reflect: indirection through nil pointer to embedded struct field "+p.Elem().String(), iface{})}
			}
			v = makeReflectValueFlag(p.Elem(), load(p.Elem(), pv), rvFlag(v))
		}
		v = ext۰reflect۰Value۰Field(fr, []value{v, ix})
	}
	return tuple{v, iface{}}
}

func ext۰reflect۰Value۰FieldByName(fr *frame, args []value) value {
	name := fr.i.concretize(args[1]).(string)
	idx, _, ok := findField(rV2T(args[0]).t, name)
	if !ok {
		return makeReflectValue(nil, nil)
	}
	iv := make([]value, len(idx))
	for k, x := range idx {
		iv[k] = x
	}
	return ext۰reflect۰Value۰FieldByIndex(fr, []value{args[0], iv})
}

func ext۰reflect۰Value۰Float(fr *frame, args []value) value {
	switch v := rV2V(args[0]).(type) {
	case float32:
		return float64(v)
	case float64:
		return float64(v)
	}
	panic(runtimeError("reflect: call of reflect.Value.Float on non-float Value"))
}

func ext۰reflect۰Value۰Interface(fr *frame, args []value) value {
	if !rvValid(args[0]) {
		panic(runtimeError("reflect: call of reflect.Value.Interface on zero Value"))
	}
	if rvRO(args[0]) {
		panic(runtimeError("reflect.Value.Interface: cannot return value obtained from unexported field or method"))
	}
	return ext۰reflect۰valueInterface(args)
}

func ext۰reflect۰Value۰Int(fr *frame, args []value) value {
	switch x := rV2V(args[0]).(type) {
	case int:
		return int64(x)
	case int8:
		return int64(x)
	case int16:
		return int64(x)
	case int32:
		return int64(x)
	case int64:
		return x
	case symInt:
		return fr.i.mkIntT(fr.i.F.Resize(x.t, 64, true), types.Int64)
	default:
		panic(runtimeError(fmt.Sprintf("reflect: call of reflect.Value.Int on %T Value", x)))
	}
}

func ext۰reflect۰Value۰IsNil(fr *frame, args []value) value {
	switch x := rV2V(args[0]).(type) {
	case *value:
		return x == nil
	case *smap:
		return x == nil
	case iface:
		return x.t == nil
	case []value:
		return x == nil
	case symBytes:
		return false
	case *ssa.Function:
		return x == nil
	case *ssa.Builtin:
		return x == nil
	case *closure:
		return x == nil
	default:
		panic(runtimeError(fmt.Sprintf("reflect: call of reflect.Value.IsNil on %T Value", x)))
	}
}

func ext۰reflect۰Value۰IsValid(fr *frame, args []value) value {
	return rvValid(args[0])
}

func ext۰reflect۰Value۰IsZero(fr *frame, args []value) value {
	t := rV2T(args[0]).t
	r := fr.i.eqnilVZero(t, rV2V(args[0]))
	return r
}

func ext۰reflect۰Value۰Set(fr *frame, args []value) value {
	return nil
}

func ext۰reflect۰Value۰Convert(fr *frame, args []value) value {
	dst := args[1].(iface).v.(rtype).t
	src := rV2T(args[0]).t
	v := rV2V(args[0])
	if _, isIface := dst.Underlying().(*types.Interface); isIface {
		return makeReflectValue(dst, iface{src, v})
	}
	if types.Identical(src.Underlying(), dst.Underlying()) {
		return makeReflectValue(dst, v)
	}
	return makeReflectValue(dst, fr.i.conv(dst, src, v))
}

// Call invokes an interpreted function value through reflection.
func ext۰reflect۰Value۰Call(fr *frame, args []value) value {
	fnv := rV2V(args[0])
	sig := rV2T(args[0]).t.Underlying().(*types.Signature)
	in := args[1].([]value)
	cargs := make([]value, 0, len(in))
	np := sig.Params().Len()
	for k, a := range in {
		if sig.Variadic() && k >= np-1 {
			break
		}
		cargs = append(cargs, coerceToParam(sig.Params().At(k).Type(), a))
	}
	if sig.Variadic() {
		et := sig.Params().At(np - 1).Type().(*types.Slice).Elem()
		var rest []value
		for k := np - 1; k < len(in); k++ {
			rest = append(rest, coerceToParam(et, in[k]))
		}
		cargs = append(cargs, rest)
	}
	res := call(fr.i, fr, token.NoPos, fnv, cargs)
	var out []value
	switch sig.Results().Len() {
	case 0:
	case 1:
		out = append(out, makeReflectValue(sig.Results().At(0).Type(), res))
	default:
		for k, r := range res.(tuple) {
			out = append(out, makeReflectValue(sig.Results().At(k).Type(), r))
		}
	}
	return out
}

// coerceToParam turns a reflect.Value into the interpreter value expected
// for a parameter of type pt (boxing into an interface when needed).
func coerceToParam(pt types.Type, rv value) value {
	v := rV2V(rv)
	if _, isIface := pt.Underlying().(*types.Interface); isIface {
		if !rvValid(rv) {
			return iface{}
		}
		if _, already := rV2T(rv).t.Underlying().(*types.Interface); already {
			return v
		}
		return iface{rV2T(rv).t, v}
	}
	return v
}

func ext۰reflect۰valueInterface(args []value) value {
	v := args[0].(structure)
	if _, isIface := rV2T(v).t.Underlying().(*types.Interface); isIface {
		if it, ok := rV2V(v).(iface); ok {
			return it
		}
	}
	return iface{rV2T(v).t, rV2V(v)}
}

func ext۰reflect۰error۰Error(fr *frame, args []value) value {
	if p, ok := args[0].(*value); ok && p != nil {
		return (*p).(structure)[0]
	}
	return args[0]
}

func ext۰reflect۰StructTag۰Get(fr *frame, args []value) value {
	tag := fr.i.concretize(args[0]).(string)
	key := fr.i.concretize(args[1]).(string)
	return reflect.StructTag(tag).Get(key)
}

func ext۰reflect۰StructTag۰Lookup(fr *frame, args []value) value {
	tag := fr.i.concretize(args[0]).(string)
	key := fr.i.concretize(args[1]).(string)
	v, ok := reflect.StructTag(tag).Lookup(key)
	return tuple{v, ok}
}

func ext۰reflect۰StructField۰IsExported(fr *frame, args []value) value {
	return args[0].(structure)[1].(string) == ""
}

// newMethod creates a new method of the specified name, package and receiver type.
func newMethod(pkg *ssa.Package, recvType types.Type, name string) *ssa.Function {
	// TODO(adonovan): fix: hack: currently the only part of Signature
	// that is needed is the "pointerness" of Recv.Type, and for
	// now, we'll set it to always be false since we're only
	// concerned with rtype.  Encapsulate this better.
	sig := types.NewSignatureType(types.NewParam(token.NoPos, nil, "recv", recvType), nil, nil, nil, nil, false)
	fn := pkg.Prog.NewFunction(name, sig, "fake reflect method")
	fn.Pkg = pkg
	return fn
}

func (P *Program) initReflect() {
	i := struct {
		prog           *ssa.Program
		reflectPackage *ssa.Package
		rtypeMethods   methodSet
		errorMethods   methodSet
	}{prog: P.Prog}
	i.reflectPackage = &ssa.Package{
		Prog:    i.prog,
		Pkg:     reflectTypesPackage,
		Members: make(map[string]ssa.Member),
	}

	// Clobber the type-checker's notion of reflect.Value's
	// underlying type so that it more closely matches the fake one
	// (at least in the number of fields---we lie about the type of
	// the rtype field).
	//
	// We must ensure that calls to (ssa.Value).Type() return the
	// fake type so that correct "shape" is used when allocating
	// variables, making zero values, loading, and storing.
	//
	// TODO(adonovan): obviously this is a hack.  We need a cleaner
	// way to fake the reflect package (almost---DeepEqual is fine).
	// One approach would be not to even load its source code, but
	// provide fake source files.  This would guarantee that no bad
	// information leaks into other packages.
	if r := i.prog.ImportedPackage("reflect"); r != nil {
		rV := r.Pkg.Scope().Lookup("Value").Type().(*types.Named)

		// delete bodies of the old methods
		mset := i.prog.MethodSets.MethodSet(rV)
		for method := range mset.Methods() {
			i.prog.MethodValue(method).Blocks = nil
		}

		tEface := types.NewInterface(nil, nil).Complete()
		rV.SetUnderlying(types.NewStruct([]*types.Var{
			types.NewField(token.NoPos, r.Pkg, "t", tEface, false), // a lie
			types.NewField(token.NoPos, r.Pkg, "v", tEface, false),
			types.NewField(token.NoPos, r.Pkg, "ro", types.Typ[types.Bool], false),
		}, nil))
	}

	i.rtypeMethods = methodSet{
		"Bits":          newMethod(i.reflectPackage, rtypeType, "Bits"),
		"Elem":          newMethod(i.reflectPackage, rtypeType, "Elem"),
		"Field":         newMethod(i.reflectPackage, rtypeType, "Field"),
		"In":            newMethod(i.reflectPackage, rtypeType, "In"),
		"Kind":          newMethod(i.reflectPackage, rtypeType, "Kind"),
		"NumField":      newMethod(i.reflectPackage, rtypeType, "NumField"),
		"NumIn":         newMethod(i.reflectPackage, rtypeType, "NumIn"),
		"NumMethod":     newMethod(i.reflectPackage, rtypeType, "NumMethod"),
		"NumOut":        newMethod(i.reflectPackage, rtypeType, "NumOut"),
		"Out":           newMethod(i.reflectPackage, rtypeType, "Out"),
		"Size":          newMethod(i.reflectPackage, rtypeType, "Size"),
		"String":        newMethod(i.reflectPackage, rtypeType, "String"),
		"Name":          newMethod(i.reflectPackage, rtypeType, "Name"),
		"Key":           newMethod(i.reflectPackage, rtypeType, "Key"),
		"FieldByName":   newMethod(i.reflectPackage, rtypeType, "FieldByName"),
		"IsVariadic":    newMethod(i.reflectPackage, rtypeType, "IsVariadic"),
		"AssignableTo":  newMethod(i.reflectPackage, rtypeType, "AssignableTo"),
		"ConvertibleTo": newMethod(i.reflectPackage, rtypeType, "ConvertibleTo"),
		"Implements":    newMethod(i.reflectPackage, rtypeType, "Implements"),
	}
	i.errorMethods = methodSet{
		"Error": newMethod(i.reflectPackage, errorType, "Error"),
	}
	P.reflectPkg = i.reflectPackage
	P.rtypeMethods = i.rtypeMethods
	P.errorMethods = i.errorMethods
}
