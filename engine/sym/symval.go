package sym

// Symbolic leaves of the interpreter: booleans, integers of every Go width
// (bit-vectors with Go's wrap-around semantics) and strings / byte slices
// (guarded slot sequences). A symbolic value whose term is constant is
// always normalised back to the native Go value, so concrete computations
// never touch the solver.

import (
	"fmt"
	"go/token"
	"go/types"

	"verif/engine/smt"
)

type symBool struct{ t *smt.Term }

type symInt struct {
	t *smt.Term
	k types.BasicKind // types.Int .. types.Uintptr
}

// symStr is a symbolic string value.
type symStr struct{ *Str }

// symBytes is a []byte whose length is symbolic (conversion of a symStr).
// It is immutable: element stores are not supported.
type symBytes struct{ *Str }

func kindWidth(k types.BasicKind) int {
	switch k {
	case types.Int8, types.Uint8:
		return 8
	case types.Int16, types.Uint16:
		return 16
	case types.Int32, types.Uint32:
		return 32
	case types.Int, types.Int64, types.Uint, types.Uint64, types.Uintptr:
		return 64
	}
	panic(fmt.Sprintf("kindWidth: %v", k))
}

func kindSigned(k types.BasicKind) bool {
	switch k {
	case types.Int, types.Int8, types.Int16, types.Int32, types.Int64:
		return true
	}
	return false
}

func basicKindOf(t types.Type) (types.BasicKind, bool) {
	b, ok := t.Underlying().(*types.Basic)
	if !ok {
		return 0, false
	}
	k := b.Kind()
	switch k {
	case types.UntypedInt:
		k = types.Int
	case types.UntypedRune:
		k = types.Int32
	}
	return k, true
}

// intKind returns the basic kind of a concrete integer value.
func intKind(v value) (types.BasicKind, uint64, bool) {
	switch x := v.(type) {
	case int:
		return types.Int, uint64(x), true
	case int8:
		return types.Int8, uint64(x), true
	case int16:
		return types.Int16, uint64(x), true
	case int32:
		return types.Int32, uint64(x), true
	case int64:
		return types.Int64, uint64(x), true
	case uint:
		return types.Uint, uint64(x), true
	case uint8:
		return types.Uint8, uint64(x), true
	case uint16:
		return types.Uint16, uint64(x), true
	case uint32:
		return types.Uint32, uint64(x), true
	case uint64:
		return types.Uint64, x, true
	case uintptr:
		return types.Uintptr, uint64(x), true
	}
	return 0, 0, false
}

func mkInt(k types.BasicKind, v uint64) value {
	switch k {
	case types.Int:
		return int(v)
	case types.Int8:
		return int8(v)
	case types.Int16:
		return int16(v)
	case types.Int32:
		return int32(v)
	case types.Int64:
		return int64(v)
	case types.Uint:
		return uint(v)
	case types.Uint8:
		return uint8(v)
	case types.Uint16:
		return uint16(v)
	case types.Uint32:
		return uint32(v)
	case types.Uint64:
		return v
	case types.Uintptr:
		return uintptr(v)
	}
	panic(fmt.Sprintf("mkInt: %v", k))
}

func isSym(v value) bool {
	switch v.(type) {
	case symBool, symInt, symStr, symBytes:
		return true
	}
	return false
}

// ---- normalising constructors ----------------------------------------------

func (i *interpreter) mkBool(t *smt.Term) value {
	if t.IsConst() {
		return t.Val == 1
	}
	return symBool{t}
}

func (i *interpreter) mkIntT(t *smt.Term, k types.BasicKind) value {
	if t.W != kindWidth(k) {
		panic(fmt.Sprintf("mkIntT: width %d for kind %v", t.W, k))
	}
	if t.IsConst() {
		v := t.Val
		if kindSigned(k) {
			// sign extend to 64
			w := t.W
			if w < 64 && v&(1<<uint(w-1)) != 0 {
				v |= ^uint64(0) << uint(w)
			}
		}
		return mkInt(k, v)
	}
	return symInt{t, k}
}

func (i *interpreter) mkStr(s *Str) value {
	if c, ok := i.L.concrete(s); ok {
		return c
	}
	return symStr{s}
}

// ---- lifting ---------------------------------------------------------------

func (i *interpreter) boolTerm(v value) *smt.Term {
	switch x := v.(type) {
	case bool:
		return i.F.Bool(x)
	case symBool:
		return x.t
	}
	panic(fmt.Sprintf("boolTerm: %T", v))
}

func (i *interpreter) intTerm(v value) (*smt.Term, types.BasicKind) {
	if s, ok := v.(symInt); ok {
		return s.t, s.k
	}
	if k, u, ok := intKind(v); ok {
		return i.F.BV(u, kindWidth(k)), k
	}
	panic(fmt.Sprintf("intTerm: %T", v))
}

func (i *interpreter) strOf(v value) *Str {
	switch x := v.(type) {
	case string:
		return i.L.lit(x)
	case symStr:
		return x.Str
	case symBytes:
		return x.Str
	}
	panic(fmt.Sprintf("strOf: %T", v))
}

// bytesToStr converts a []value of bytes (possibly symbolic) to a Str.
func (i *interpreter) bytesToStr(v value) *Str {
	switch x := v.(type) {
	case symBytes:
		return x.Str
	case []value:
		out := make([]slot, len(x))
		for k, e := range x {
			t, _ := i.intTerm(e)
			out[k] = slot{i.F.True, t}
		}
		return &Str{s: out}
	case nil:
		return &Str{}
	}
	panic(fmt.Sprintf("bytesToStr: %T", v))
}

// strToBytes converts a string value to a []byte value.
func (i *interpreter) strToBytes(v value) value {
	switch x := v.(type) {
	case string:
		res := make([]value, len(x))
		for k := 0; k < len(x); k++ {
			res[k] = x[k]
		}
		return res
	case symStr:
		allTrue := true
		for _, sl := range x.s {
			if !sl.g.IsTrue() {
				allTrue = false
				break
			}
		}
		if allTrue {
			res := make([]value, len(x.s))
			for k, sl := range x.s {
				res[k] = i.mkIntT(sl.b, types.Uint8)
			}
			return res
		}
		return symBytes{x.Str}
	}
	panic(fmt.Sprintf("strToBytes: %T", v))
}

// ---- operators -------------------------------------------------------------

func (i *interpreter) symBinop(op token.Token, t types.Type, x, y value) value {
	F := i.F
	// strings
	if isStrVal(x) || isStrVal(y) {
		a, b := i.strOf(x), i.strOf(y)
		switch op {
		case token.ADD:
			return i.mkStr(i.L.concat(a, b))
		case token.EQL:
			return i.mkBool(i.L.eq(a, b))
		case token.NEQ:
			return i.mkBool(F.Not(i.L.eq(a, b)))
		case token.LSS:
			return i.mkBool(i.L.less(a, b))
		case token.GTR:
			return i.mkBool(i.L.less(b, a))
		case token.LEQ:
			return i.mkBool(F.Not(i.L.less(b, a)))
		case token.GEQ:
			return i.mkBool(F.Not(i.L.less(a, b)))
		}
		panic(fmt.Sprintf("symBinop: string op %s", op))
	}
	// booleans
	if isBoolVal(x) && isBoolVal(y) {
		a, b := i.boolTerm(x), i.boolTerm(y)
		switch op {
		case token.EQL:
			return i.mkBool(F.Eq(a, b))
		case token.NEQ:
			return i.mkBool(F.Not(F.Eq(a, b)))
		case token.LAND, token.AND:
			return i.mkBool(F.And(a, b))
		case token.LOR, token.OR:
			return i.mkBool(F.Or(a, b))
		}
		panic(fmt.Sprintf("symBinop: bool op %s", op))
	}
	// integers
	a, ka := i.intTerm(x)
	b, kb := i.intTerm(y)
	signed := kindSigned(ka)
	switch op {
	case token.SHL, token.SHR:
		// shift count may have a different (unsigned or signed) type
		if b.W != a.W {
			// saturate large counts: if any bit above a.W's range is set the
			// result is the same as shifting by a.W.
			if b.W > a.W {
				over := F.Not(F.Eq(F.Extract(b, b.W-1, a.W), F.BV(0, b.W-a.W)))
				b = F.Ite(over, F.BV(uint64(a.W), a.W), F.Extract(b, a.W-1, 0))
			} else {
				b = F.Zext(b, a.W)
			}
		}
		if kindSigned(kb) {
			neg := F.Slt(b, F.BV(0, b.W))
			if i.branch(neg) {
				panic(runtimeError("negative shift amount"))
			}
		}
		if op == token.SHL {
			return i.mkIntT(F.Shl(a, b), ka)
		}
		if signed {
			return i.mkIntT(F.Ashr(a, b), ka)
		}
		return i.mkIntT(F.Lshr(a, b), ka)
	}
	if a.W != b.W {
		panic(fmt.Sprintf("symBinop: widths %d %d for %s", a.W, b.W, op))
	}
	switch op {
	case token.ADD:
		return i.mkIntT(F.Add(a, b), ka)
	case token.SUB:
		return i.mkIntT(F.Sub(a, b), ka)
	case token.MUL:
		return i.mkIntT(F.Mul(a, b), ka)
	case token.QUO, token.REM:
		if i.branch(F.Eq(b, F.BV(0, b.W))) {
			panic(runtimeError("integer divide by zero"))
		}
		switch {
		case op == token.QUO && signed:
			return i.mkIntT(F.Sdiv(a, b), ka)
		case op == token.QUO:
			return i.mkIntT(F.Udiv(a, b), ka)
		case signed:
			return i.mkIntT(F.Srem(a, b), ka)
		default:
			return i.mkIntT(F.Urem(a, b), ka)
		}
	case token.AND:
		return i.mkIntT(F.BVAnd(a, b), ka)
	case token.OR:
		return i.mkIntT(F.BVOr(a, b), ka)
	case token.XOR:
		return i.mkIntT(F.BVXor(a, b), ka)
	case token.AND_NOT:
		return i.mkIntT(F.BVAnd(a, F.BVNot(b)), ka)
	case token.EQL:
		return i.mkBool(F.Eq(a, b))
	case token.NEQ:
		return i.mkBool(F.Not(F.Eq(a, b)))
	case token.LSS:
		if signed {
			return i.mkBool(F.Slt(a, b))
		}
		return i.mkBool(F.Ult(a, b))
	case token.LEQ:
		if signed {
			return i.mkBool(F.Sle(a, b))
		}
		return i.mkBool(F.Ule(a, b))
	case token.GTR:
		if signed {
			return i.mkBool(F.Slt(b, a))
		}
		return i.mkBool(F.Ult(b, a))
	case token.GEQ:
		if signed {
			return i.mkBool(F.Sle(b, a))
		}
		return i.mkBool(F.Ule(b, a))
	}
	panic(fmt.Sprintf("symBinop: int op %s", op))
}

func isStrVal(v value) bool {
	switch v.(type) {
	case string, symStr:
		return true
	}
	return false
}

func isBoolVal(v value) bool {
	switch v.(type) {
	case bool, symBool:
		return true
	}
	return false
}

func (i *interpreter) symUnop(op token.Token, x value) value {
	F := i.F
	switch x := x.(type) {
	case symBool:
		if op == token.NOT {
			return i.mkBool(F.Not(x.t))
		}
	case symInt:
		switch op {
		case token.SUB:
			return i.mkIntT(F.Neg(x.t), x.k)
		case token.XOR:
			return i.mkIntT(F.BVNot(x.t), x.k)
		}
	}
	panic(fmt.Sprintf("symUnop: %s %T", op, x))
}

// symConv converts symbolic x from t_src to t_dst.
func (i *interpreter) symConv(t_dst, t_src types.Type, x value) value {
	F := i.F
	ut_src := t_src.Underlying()
	ut_dst := t_dst.Underlying()
	switch x := x.(type) {
	case symInt:
		if db, ok := ut_dst.(*types.Basic); ok {
			if db.Info()&types.IsInteger != 0 {
				k, _ := basicKindOf(ut_dst)
				return i.mkIntT(F.Resize(x.t, kindWidth(k), kindSigned(x.k)), k)
			}
			if db.Info()&types.IsString != 0 {
				// string(rune): only ASCII is modelled
				r := F.Resize(x.t, 8, false)
				i.assume(F.Ult(F.Resize(x.t, 64, kindSigned(x.k)), F.BV(0x80, 64)), "string(rune) restricted to ASCII")
				return i.mkStr(&Str{s: []slot{{F.True, r}}})
			}
			if db.Info()&types.IsFloat != 0 {
				c := i.concretize(x)
				return conv(t_dst, t_src, c)
			}
		}
	case symStr:
		switch d := ut_dst.(type) {
		case *types.Basic:
			if d.Info()&types.IsString != 0 {
				return x
			}
		case *types.Slice:
			if eb, ok := d.Elem().Underlying().(*types.Basic); ok && eb.Kind() == types.Uint8 {
				return i.strToBytes(x)
			}
			if eb, ok := d.Elem().Underlying().(*types.Basic); ok && eb.Kind() == types.Int32 {
				// []rune(s): fix the shape by walking present slots
				var res []value
				for _, sl := range x.s {
					if i.branch(sl.g) {
						res = append(res, i.mkIntT(F.Zext(sl.b, 32), types.Int32))
					}
				}
				return res
			}
		}
	case symBytes:
		if d, ok := ut_dst.(*types.Basic); ok && d.Info()&types.IsString != 0 {
			return i.mkStr(x.Str)
		}
		if _, ok := ut_dst.(*types.Slice); ok {
			return x
		}
	case symBool:
		return x
	}
	_ = ut_src
	panic(fmt.Sprintf("symConv: unsupported %T from %s to %s", x, t_src, t_dst))
}

type runtimeError string

func (e runtimeError) Error() string { return "runtime error: " + string(e) }
func (e runtimeError) RuntimeError() {}

// ---- string element access ---------------------------------------------------

// strIndex implements s[idx] for a symbolic string and/or index.
func (i *interpreter) strIndex(s value, idx value) value {
	F := i.F
	str := i.strOf(s)
	it, ik := i.intTerm(idx)
	i64 := F.Resize(it, 64, kindSigned(ik))
	ln := i.L.length(str)
	inRange := F.Ult(i64, ln) // unsigned compare also rejects negatives
	if !i.branch(inRange) {
		panic(runtimeError("index out of range"))
	}
	return i.mkIntT(i.L.byteAt(str, i.L.to16(i64)), types.Uint8)
}

// strSlice implements s[lo:hi] on strings.
func (i *interpreter) strSlice(s value, lo, hi value) value {
	F := i.F
	str := i.strOf(s)
	ln := i.L.length(str)
	var lo16, hi16 *smt.Term
	lo64 := F.BV(0, 64)
	hi64 := ln
	if lo != nil {
		t, k := i.intTerm(lo)
		lo64 = F.Resize(t, 64, kindSigned(k))
	}
	if hi != nil {
		t, k := i.intTerm(hi)
		hi64 = F.Resize(t, 64, kindSigned(k))
	}
	ok := F.And(F.Ule(lo64, hi64), F.Ule(hi64, ln))
	if !i.branch(ok) {
		panic(runtimeError("slice bounds out of range"))
	}
	if lo != nil {
		lo16 = i.L.to16(lo64)
		if lo16.IsConst() && lo16.Val == 0 {
			lo16 = nil
		}
	}
	if hi != nil {
		hi16 = i.L.to16(hi64)
	}
	return i.mkStr(i.L.slice(str, lo16, hi16))
}

// symStrIter ranges over a symbolic string: the shape (which slots are
// present) is fixed by branching on each guard in turn.
type symStrIter struct {
	i   *interpreter
	s   *Str
	k   int
	off int // number of present bytes so far
}

func (it *symStrIter) next() tuple {
	for it.k < len(it.s.s) {
		sl := it.s.s[it.k]
		it.k++
		if it.i.branch(sl.g) {
			r := it.i.mkIntT(it.i.F.Zext(sl.b, 32), types.Int32)
			idx := it.off
			it.off++
			return tuple{true, idx, r}
		}
	}
	return tuple{false, 0, int32(0)}
}
