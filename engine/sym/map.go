package sym

// Maps are insertion-ordered association lists so that keys may be symbolic:
// a symbolic key is first determinised (solver uniqueness check) and
// otherwise compared with each existing key by forking ("alias or fresh").

import (
	"fmt"
	"go/types"
)

type smapEntry struct {
	k, v value
}

type smap struct {
	keyT types.Type
	ents []smapEntry
}

func newSmap(kt types.Type) *smap { return &smap{keyT: kt} }

func (m *smap) len() int {
	if m == nil {
		return 0
	}
	return len(m.ents)
}

// normKey makes a symbolic string key concrete when the path condition
// determines it.
func (i *interpreter) normKey(k value) value {
	switch x := k.(type) {
	case symStr:
		if c, ok := i.determinedStr(x.Str); ok {
			return c
		}
	case iface:
		if s, ok := x.v.(symStr); ok {
			if c, ok := i.determinedStr(s.Str); ok {
				return iface{x.t, c}
			}
		}
	}
	return k
}

func (m *smap) find(i *interpreter, key value) int {
	if m == nil {
		return -1
	}
	key = i.normKey(key)
	for idx := range m.ents {
		eq := i.equalsV(m.keyT, m.ents[idx].k, key)
		switch e := eq.(type) {
		case bool:
			if e {
				return idx
			}
		case symBool:
			if i.branch(e.t) {
				return idx
			}
		default:
			panic(fmt.Sprintf("smap.find: %T", eq))
		}
	}
	return -1
}

func (m *smap) lookup(i *interpreter, key value) (value, bool) {
	idx := m.find(i, key)
	if idx < 0 {
		return nil, false
	}
	return m.ents[idx].v, true
}

func (m *smap) insert(i *interpreter, key, v value) {
	key = i.normKey(key)
	idx := m.find(i, key)
	if idx >= 0 {
		m.ents[idx].v = v
		return
	}
	m.ents = append(m.ents, smapEntry{key, v})
}

func (m *smap) delete(i *interpreter, key value) {
	idx := m.find(i, key)
	if idx < 0 {
		return
	}
	m.ents = append(m.ents[:idx:idx], m.ents[idx+1:]...)
}

type smapIter struct {
	ents []smapEntry
	k    int
}

func (it *smapIter) next() tuple {
	if it.k >= len(it.ents) {
		return tuple{false, nil, nil}
	}
	e := it.ents[it.k]
	it.k++
	return tuple{true, e.k, e.v}
}

// permutation returns the n-th permutation (factorial number system) of ents.
func permute(ents []smapEntry, n uint64) []smapEntry {
	pool := append([]smapEntry(nil), ents...)
	out := make([]smapEntry, 0, len(ents))
	for k := len(pool); k > 0; k-- {
		idx := int(n % uint64(k))
		n /= uint64(k)
		out = append(out, pool[idx])
		pool = append(pool[:idx], pool[idx+1:]...)
	}
	return out
}

func factorial(n int) uint64 {
	r := uint64(1)
	for k := 2; k <= n; k++ {
		r *= uint64(k)
	}
	return r
}
