// Copyright 2013 The Go Authors. All rights reserved.
// Use of this source code is governed by a BSD-style
// license that can be found in the LICENSE file.

// Package ssa/interp defines an interpreter for the SSA
// representation of Go programs.
//
// This interpreter is provided as an adjunct for testing the SSA
// construction algorithm.  Its purpose is to provide a minimal
// metacircular implementation of the dynamic semantics of each SSA
// instruction.  It is not, and will never be, a production-quality Go
// interpreter.
//
// The following is a partial list of Go features that are currently
// unsupported or incomplete in the interpreter.
//
// * Unsafe operations, including all uses of unsafe.Pointer, are
// impossible to support given the "boxed" value representation we
// have chosen.
//
// * The reflect package is only partially implemented.
//
// * The "testing" package is no longer supported because it
// depends on low-level details that change too often.
//
// * "sync/atomic" operations are not atomic due to the "boxed" value
// representation: it is not possible to read, modify and write an
// interface value atomically. As a consequence, Mutexes are currently
// broken.
//
// * recover is only partially implemented.  Also, the interpreter
// makes no attempt to distinguish target panics from interpreter
// crashes.
//
// * the sizes of the int, uint and uintptr types in the target
// program are assumed to be the same as those of the interpreter
// itself.
//
// * all values occupy space, even those of types defined by the spec
// to have zero size, e.g. struct{}.  This can cause asymptotic
// performance degradation.
//
// * os.Exit is implemented using panic, causing deferred functions to
// run.
package sym

import (
	"fmt"
	"go/token"
	"go/types"
	"os"
	"slices"
	"strings"
	"unsafe"

	"golang.org/x/tools/go/ssa"

	"verif/engine/smt"
)

func mustDeref(t types.Type) types.Type {
	if p, ok := t.Underlying().(*types.Pointer); ok {
		return p.Elem()
	}
	panic(fmt.Sprintf("mustDeref: %s is not a pointer", t))
}

type continuation int

const (
	kNext continuation = iota
	kReturn
	kJump
)

// Mode is a bitmask of options affecting the interpreter.
type Mode uint

const (
	DisableRecover Mode = 1 << iota // Disable recover() in target programs; show interpreter crash instead.
	EnableTracing                   // Print a trace of all instructions as they are interpreted.
)

type methodSet map[string]*ssa.Function

// State shared between all interpreted goroutines.
type interpreter struct {
	osArgs             []value                // the value of os.Args
	prog               *ssa.Program           // the SSA program
	globals            map[*ssa.Global]*value // addresses of global variables (immutable)
	mode               Mode                   // interpreter options
	runtimeErrorString types.Type             // the runtime.errorString type (iff "runtime" is present)
	sizes              types.Sizes            // the effective type-sizing function
	goroutines         int32                  // atomically updated

	// symbolic execution state
	w        *Worker
	F        *smt.Factory
	L        strLib
	run      *run
	depth    int
	top      *frame
	pool     map[*value][]value
	syncMaps map[*value]*smap
	locks    map[uintptr][]lockMode // mutexes held by the execution (self-deadlock detection)

	ulidCounter int
	race        *raceTrace
}

type deferred struct {
	fn    value
	args  []value
	instr *ssa.Defer
	tail  *deferred
}

type frame struct {
	i                *interpreter
	caller           *frame
	fn               *ssa.Function
	block, prevBlock *ssa.BasicBlock
	env              map[ssa.Value]value // dynamic values of SSA variables
	locals           []value
	defers           *deferred
	result           value
	panicking        bool
	panic            any
	phitemps         []value // temporaries for parallel phi assignment
	visits           []int   // per-block visit counts (unwinding bound)
}

func (fr *frame) get(key ssa.Value) value {
	switch key := key.(type) {
	case nil:
		// Hack; simplifies handling of optional attributes
		// such as ssa.Slice.{Low,High}.
		return nil
	case *ssa.Function, *ssa.Builtin:
		return key
	case *ssa.Const:
		return constValue(key)
	case *ssa.Global:
		return fr.i.globalCell(key)
	}
	if r, ok := fr.env[key]; ok {
		return r
	}
	panic(fmt.Sprintf("get: no value for %T: %v", key, key.Name()))
}

// runDefer runs a deferred call d.
// It always returns normally, but may set or clear fr.panic.
func (fr *frame) runDefer(d *deferred) {
	if fr.i.mode&EnableTracing != 0 {
		fmt.Fprintf(os.Stderr, "%s: invoking deferred function call\n",
			fr.i.prog.Fset.Position(d.instr.Pos()))
	}
	var ok bool
	defer func() {
		if !ok {
			// Deferred call created a new state of panic.
			fr.panicking = true
			fr.panic = recover()
		}
	}()
	call(fr.i, fr, d.instr.Pos(), d.fn, d.args)
	ok = true
}

// runDefers executes fr's deferred function calls in LIFO order.
//
// On entry, fr.panicking indicates a state of panic; if
// true, fr.panic contains the panic value.
//
// On completion, if a deferred call started a panic, or if no
// deferred call recovered from a previous state of panic, then
// runDefers itself panics after the last deferred call has run.
//
// If there was no initial state of panic, or it was recovered from,
// runDefers returns normally.
func (fr *frame) runDefers() {
	for d := fr.defers; d != nil; d = d.tail {
		fr.runDefer(d)
	}
	fr.defers = nil
	if fr.panicking {
		panic(fr.panic) // new panic, or still panicking
	}
}

// lookupMethod returns the method set for type typ, which may be one
// of the interpreter's fake types.
func lookupMethod(i *interpreter, typ types.Type, meth *types.Func) *ssa.Function {
	switch typ {
	case rtypeType:
		return i.w.P.rtypeMethods[meth.Id()]
	case errorType:
		return i.w.P.errorMethods[meth.Id()]
	}
	return i.prog.LookupMethod(typ, meth.Pkg(), meth.Name())
}

// visitInstr interprets a single ssa.Instruction within the activation
// record frame.  It returns a continuation value indicating where to
// read the next instruction from.
func visitInstr(fr *frame, instr ssa.Instruction) continuation {
	i := fr.i
	switch instr := instr.(type) {
	case *ssa.DebugRef:
		// no-op

	case *ssa.UnOp:
		if i.race != nil && instr.Op == token.MUL {
			if p, ok := fr.get(instr.X).(*value); ok && p != nil {
				i.raceLoad(mustDeref(instr.X.Type()), p, fr, instr.Pos())
			}
		}
		fr.env[instr] = i.unop(instr, fr.get(instr.X))

	case *ssa.BinOp:
		fr.env[instr] = i.binop(instr.Op, instr.X.Type(), fr.get(instr.X), fr.get(instr.Y))

	case *ssa.Call:
		fn, args := prepareCall(fr, &instr.Call)
		fr.env[instr] = call(fr.i, fr, instr.Pos(), fn, args)

	case *ssa.ChangeInterface:
		fr.env[instr] = fr.get(instr.X)

	case *ssa.ChangeType:
		fr.env[instr] = fr.get(instr.X) // (can't fail)

	case *ssa.Convert:
		fr.env[instr] = i.conv(instr.Type(), instr.X.Type(), fr.get(instr.X))

	case *ssa.SliceToArrayPointer:
		fr.env[instr] = sliceToArrayPointer(instr.Type(), instr.X.Type(), fr.get(instr.X))

	case *ssa.MakeInterface:
		fr.env[instr] = iface{t: instr.X.Type(), v: fr.get(instr.X)}

	case *ssa.Extract:
		fr.env[instr] = fr.get(instr.Tuple).(tuple)[instr.Index]

	case *ssa.Slice:
		fr.env[instr] = i.slice(fr.get(instr.X), fr.get(instr.Low), fr.get(instr.High), fr.get(instr.Max))

	case *ssa.Return:
		switch len(instr.Results) {
		case 0:
		case 1:
			fr.result = fr.get(instr.Results[0])
		default:
			var res []value
			for _, r := range instr.Results {
				res = append(res, fr.get(r))
			}
			fr.result = tuple(res)
		}
		fr.block = nil
		return kReturn

	case *ssa.RunDefers:
		fr.runDefers()

	case *ssa.Panic:
		panic(targetPanic{fr.get(instr.X)})

	case *ssa.Send, *ssa.Go, *ssa.MakeChan, *ssa.Select:
		panic(stop{kind: "unsupported", msg: fmt.Sprintf("instruction %T (concurrency is not modelled)", instr)})

	case *ssa.Store:
		addr := fr.get(instr.Addr).(*value)
		if addr == nil {
			panic(runtimeError("invalid memory address or nil pointer dereference"))
		}
		if i.race != nil {
			i.raceStore(mustDeref(instr.Addr.Type()), addr, fr.get(instr.Val), fr, instr.Pos())
		}
		store(mustDeref(instr.Addr.Type()), addr, fr.get(instr.Val))

	case *ssa.If:
		succ := 1
		c := fr.get(instr.Cond)
		var taken bool
		switch c := c.(type) {
		case bool:
			taken = c
		case symBool:
			i.top = fr
			// unwinding bound: symbolic decisions at one branch site of one frame
			fr.visits[fr.block.Index]++
			if fr.visits[fr.block.Index] > i.w.Cfg.Unwind {
				panic(stop{kind: "unwind", id: "loop", msg: fmt.Sprintf("unwinding bound %d exceeded in %s block %d", i.w.Cfg.Unwind, fr.fn, fr.block.Index)})
			}
			taken = i.branch(c.t)
		default:
			panic(fmt.Sprintf("If: condition of type %T", c))
		}
		if taken {
			succ = 0
		}
		fr.prevBlock, fr.block = fr.block, fr.block.Succs[succ]
		return kJump

	case *ssa.Jump:
		fr.prevBlock, fr.block = fr.block, fr.block.Succs[0]
		return kJump

	case *ssa.Defer:
		fn, args := prepareCall(fr, &instr.Call)
		defers := &fr.defers
		if into := fr.get(instr.DeferStack); into != nil {
			defers = into.(**deferred)
		}
		*defers = &deferred{
			fn:    fn,
			args:  args,
			instr: instr,
			tail:  *defers,
		}

	case *ssa.Alloc:
		var addr *value
		if instr.Heap {
			// new
			addr = new(value)
			fr.env[instr] = addr
		} else {
			// local
			addr = fr.env[instr].(*value)
		}
		*addr = zero(mustDeref(instr.Type()))

	case *ssa.MakeSlice:
		capV := asInt64(i.concretize(fr.get(instr.Cap)))
		lenV := asInt64(i.concretize(fr.get(instr.Len)))
		if lenV < 0 || capV < lenV || capV > 1<<24 {
			panic(runtimeError("makeslice: len out of range"))
		}
		slice := make([]value, capV)
		tElt := instr.Type().Underlying().(*types.Slice).Elem()
		for i := range slice {
			slice[i] = zero(tElt)
		}
		fr.env[instr] = slice[:lenV]

	case *ssa.MakeMap:
		fr.env[instr] = newSmap(instr.Type().Underlying().(*types.Map).Key())

	case *ssa.Range:
		if m, ok := fr.get(instr.X).(*smap); ok && i.race != nil && m != nil {
			i.raceAccess(uintptr(unsafe.Pointer(m)), false, fr, instr.Pos())
		}
		fr.env[instr] = i.rangeIter(fr, fr.get(instr.X))

	case *ssa.Next:
		i.top = fr
		fr.env[instr] = fr.get(instr.Iter).(iter).next()

	case *ssa.FieldAddr:
		p := fr.get(instr.X).(*value)
		if p == nil {
			panic(runtimeError("invalid memory address or nil pointer dereference"))
		}
		fr.env[instr] = &(*p).(structure)[instr.Field]

	case *ssa.Field:
		fr.env[instr] = fr.get(instr.X).(structure)[instr.Field]

	case *ssa.IndexAddr:
		x := fr.get(instr.X)
		i.top = fr
		switch x := x.(type) {
		case []value:
			idx := i.indexInRange(fr.get(instr.Index), int64(len(x)))
			fr.env[instr] = &x[idx]
		case *value: // *array
			if x == nil {
				panic(runtimeError("invalid memory address or nil pointer dereference"))
			}
			a := (*x).(array)
			idx := i.indexInRange(fr.get(instr.Index), int64(len(a)))
			fr.env[instr] = &a[idx]
		case symBytes:
			// read-only element access: materialise the byte in a fresh cell
			b := i.strIndex(symStr{x.Str}, fr.get(instr.Index))
			cell := new(value)
			*cell = b
			fr.env[instr] = cell
		default:
			panic(fmt.Sprintf("unexpected x type in IndexAddr: %T", x))
		}

	case *ssa.Index:
		x := fr.get(instr.X)
		idx := fr.get(instr.Index)
		i.top = fr
		switch x := x.(type) {
		case array:
			fr.env[instr] = x[i.indexInRange(idx, int64(len(x)))]
		case string:
			if isSym(idx) {
				fr.env[instr] = i.strIndex(x, idx)
			} else {
				k := asInt64(idx)
				if k < 0 || k >= int64(len(x)) {
					panic(runtimeError("index out of range"))
				}
				fr.env[instr] = x[k]
			}
		case symStr:
			fr.env[instr] = i.strIndex(x, idx)
		default:
			panic(fmt.Sprintf("unexpected x type in Index: %T", x))
		}

	case *ssa.Lookup:
		i.top = fr
		if m, ok := fr.get(instr.X).(*smap); ok && i.race != nil && m != nil {
			i.raceAccess(uintptr(unsafe.Pointer(m)), false, fr, instr.Pos())
		}
		fr.env[instr] = i.lookup(instr, fr.get(instr.X), fr.get(instr.Index))

	case *ssa.MapUpdate:
		i.top = fr
		m := fr.get(instr.Map)
		key := fr.get(instr.Key)
		v := fr.get(instr.Value)
		switch m := m.(type) {
		case *smap:
			if m == nil {
				panic(runtimeError("assignment to entry in nil map"))
			}
			if i.race != nil {
				a := uintptr(unsafe.Pointer(m))
				i.raceAccess(a, true, fr, instr.Pos())
				if path, ok := i.race.shared[a]; ok {
					i.publish(v, nil, path+"[+]")
				}
			}
			m.insert(i, key, v)
		default:
			panic(fmt.Sprintf("illegal map type: %T", m))
		}

	case *ssa.TypeAssert:
		fr.env[instr] = typeAssert(instr, fr.get(instr.X).(iface))

	case *ssa.MakeClosure:
		var bindings []value
		for _, binding := range instr.Bindings {
			bindings = append(bindings, fr.get(binding))
		}
		fr.env[instr] = &closure{instr.Fn.(*ssa.Function), bindings}

	case *ssa.Phi:
		panic("unreachable") // phis are processed at block entry

	default:
		panic(fmt.Sprintf("unexpected instruction: %T", instr))
	}

	return kNext
}

// indexInRange concretises a (possibly symbolic) index and checks it
// against n, raising the Go runtime error when it can be out of range.
func (i *interpreter) indexInRange(idx value, n int64) int64 {
	if s, ok := idx.(symInt); ok {
		F := i.F
		i64 := F.Resize(s.t, 64, kindSigned(s.k))
		if !i.branch(F.Ult(i64, F.BV(uint64(n), 64))) {
			panic(runtimeError("index out of range"))
		}
		return int64(i.concretizeTerm(i64))
	}
	k := asInt64(idx)
	if k < 0 || k >= n {
		panic(runtimeError(fmt.Sprintf("index out of range [%d] with length %d", k, n)))
	}
	return k
}

// prepareCall determines the function value and argument values for a
// function call in a Call, Go or Defer instruction, performing
// interface method lookup if needed.
func prepareCall(fr *frame, call *ssa.CallCommon) (fn value, args []value) {
	v := fr.get(call.Value)
	if call.Method == nil {
		// Function call.
		fn = v
	} else {
		// Interface method invocation.
		recv := v.(iface)
		if recv.t == nil {
			panic("method invoked on nil interface")
		}
		if f := lookupMethod(fr.i, recv.t, call.Method); f == nil {
			// Unreachable in well-typed programs.
			panic(fmt.Sprintf("method set for dynamic type %v does not contain %s", recv.t, call.Method))
		} else {
			fn = f
		}
		args = append(args, recv.v)
	}
	for _, arg := range call.Args {
		args = append(args, fr.get(arg))
	}
	return
}

// call interprets a call to a function (function, builtin or closure)
// fn with arguments args, returning its result.
// callpos is the position of the callsite.
func call(i *interpreter, caller *frame, callpos token.Pos, fn value, args []value) value {
	switch fn := fn.(type) {
	case *ssa.Function:
		if fn == nil {
			panic("call of nil function") // nil of func type
		}
		return callSSA(i, caller, callpos, fn, args, nil)
	case *closure:
		return callSSA(i, caller, callpos, fn.Fn, args, fn.Env)
	case *ssa.Builtin:
		return callBuiltin(caller, fn, args)
	}
	panic(fmt.Sprintf("cannot call %T", fn))
}

func loc(fset *token.FileSet, pos token.Pos) string {
	if pos == token.NoPos {
		return ""
	}
	return " at " + fset.Position(pos).String()
}

// callSSA interprets a call to function fn with arguments args,
// and lexical environment env, returning its result.
// callpos is the position of the callsite.
func callSSA(i *interpreter, caller *frame, callpos token.Pos, fn *ssa.Function, args []value, env []value) value {
	if i.mode&EnableTracing != 0 {
		fset := fn.Prog.Fset
		fmt.Fprintf(os.Stderr, "Entering %s%s.\n", fn, loc(fset, fn.Pos()))
		suffix := ""
		if caller != nil {
			suffix = ", resuming " + caller.fn.String() + loc(fset, callpos)
		}
		defer fmt.Fprintf(os.Stderr, "Leaving %s%s.\n", fn, suffix)
	}
	fr := &frame{
		i:      i,
		caller: caller, // for panic/recover
		fn:     fn,
	}
	i.top = fr
	if fn.Parent() == nil {
		name := fn.String()
		if len(fn.TypeArgs()) > 0 {
			if o := fn.Origin(); o != nil {
				name = o.String()
			}
		}
		if strings.HasPrefix(fn.Name(), "zz") {
			if zz, ok := zzIntrinsics[fn.Name()]; ok {
				return zz(fr, args)
			}
		}
		i.w.FuncsEntered[name]++
		if fn.Pkg != nil && stubbedPackages[fn.Pkg.Pkg.Path()] && (fn.Name() == "init" || strings.HasPrefix(fn.Name(), "init#")) {
			// the package is replaced by a model as a whole; what its
			// initialiser sets up is accounted for by stubStateAccess
			return nil
		}
		if stubFn, ok := i.w.stubs[name]; ok {
			fn = stubFn
			fr.fn = fn
		} else if ext := intrinsics[name]; ext != nil {
			if nf, ok := nativeFirst[name]; ok && allConcrete(args) {
				if r, ok := i.callNative(fr, fn, name, nf, args); ok {
					return r
				}
			}
			return ext(fr, args)
		} else if ext := externals[name]; ext != nil {
			return ext(fr, args)
		} else if !i.w.interpretable(fn) {
			if fn.Name() == "init" || strings.HasPrefix(fn.Name(), "init#") {
				return nil // std/third-party package initialisers are not executed
			}
			if r, ok := i.nativeBridge(fr, fn, name, args); ok {
				return r
			}
			panic(stop{kind: "unsupported", msg: "no model for " + name})
		}
		if fn.Blocks == nil {
			panic(stop{kind: "unsupported", msg: "no code for function: " + name})
		}
	}

	// generic function body?
	if fn.TypeParams().Len() > 0 && len(fn.TypeArgs()) == 0 {
		panic("interp requires ssa.BuilderMode to include InstantiateGenerics to execute generics")
	}

	i.depth++
	if i.depth > i.w.Cfg.MaxDepth {
		panic(stop{kind: "unwind", id: "call-depth", msg: fmt.Sprintf("call depth %d exceeded in %s", i.w.Cfg.MaxDepth, fn)})
	}
	defer func() { i.depth-- }()

	fr.env = make(map[ssa.Value]value)
	fr.block = fn.Blocks[0]
	fr.locals = make([]value, len(fn.Locals))
	fr.visits = make([]int, len(fn.Blocks))
	for i, l := range fn.Locals {
		fr.locals[i] = zero(mustDeref(l.Type()))
		fr.env[l] = &fr.locals[i]
	}
	for i, p := range fn.Params {
		fr.env[p] = args[i]
	}
	for i, fv := range fn.FreeVars {
		fr.env[fv] = env[i]
	}
	for fr.block != nil {
		runFrame(fr)
	}
	// Destroy the locals to avoid accidental use after return.
	for i := range fn.Locals {
		fr.locals[i] = bad{}
	}
	i.top = caller
	return fr.result
}

// runFrame executes SSA instructions starting at fr.block and
// continuing until a return, a panic, or a recovered panic.
//
// After a panic, runFrame panics.
//
// After a normal return, fr.result contains the result of the call
// and fr.block is nil.
//
// A recovered panic in a function without named return parameters
// (NRPs) becomes a normal return of the zero value of the function's
// result type.
//
// After a recovered panic in a function with NRPs, fr.result is
// undefined and fr.block contains the block at which to resume
// control.
func runFrame(fr *frame) {
	defer func() {
		if fr.block == nil {
			return // normal return
		}
		if fr.i.mode&DisableRecover != 0 {
			return // let interpreter crash
		}
		p := recover()
		if !isTargetPanic(p) {
			// control panics (end of path, unsupported construct, engine
			// failure) are not visible to the target program
			panic(p)
		}
		fr.panicking = true
		fr.panic = p
		if debugPanics && (fr.i.top == fr || fr.i.top == nil) {
			fmt.Fprintf(os.Stderr, "target panic %v in %s\n", p, fr.fn)
		}
		if fr.i.mode&EnableTracing != 0 {
			fmt.Fprintf(os.Stderr, "Panicking: %T %v.\n", fr.panic, fr.panic)
		}
		fr.runDefers()
		fr.block = fr.fn.Recover
	}()

	for {
		if fr.i.mode&EnableTracing != 0 {
			fmt.Fprintf(os.Stderr, ".%s:\n", fr.block)
		}

		nonPhis := executePhis(fr)
		for _, instr := range nonPhis {
			fr.i.run.steps++
			if fr.i.run.steps > fr.i.w.Cfg.MaxSteps {
				panic(stop{kind: "steps", msg: fmt.Sprintf("step budget %d exceeded in %s", fr.i.w.Cfg.MaxSteps, fr.fn)})
			}
			if fr.i.mode&EnableTracing != 0 {
				if v, ok := instr.(ssa.Value); ok {
					fmt.Fprintln(os.Stderr, "\t", v.Name(), "=", instr)
				} else {
					fmt.Fprintln(os.Stderr, "\t", instr)
				}
			}
			if visitInstr(fr, instr) == kReturn {
				return
			}
			// Inv: kNext (continue) or kJump (last instr)
		}
	}
}

// executePhis executes the phi-nodes at the start of the current
// block and returns the non-phi instructions.
func executePhis(fr *frame) []ssa.Instruction {
	firstNonPhi := -1
	for i, instr := range fr.block.Instrs {
		if _, ok := instr.(*ssa.Phi); !ok {
			firstNonPhi = i
			break
		}
	}
	// Inv: 0 <= firstNonPhi; every block contains a non-phi.

	nonPhis := fr.block.Instrs[firstNonPhi:]
	if firstNonPhi > 0 {
		phis := fr.block.Instrs[:firstNonPhi]
		// Execute parallel assignment of phis.
		//
		// See "the swap problem" in Briggs et al's "Practical Improvements
		// to the Construction and Destruction of SSA Form" for discussion.
		predIndex := slices.Index(fr.block.Preds, fr.prevBlock)
		fr.phitemps = fr.phitemps[:0]
		for _, phi := range phis {
			phi := phi.(*ssa.Phi)
			if fr.i.mode&EnableTracing != 0 {
				fmt.Fprintln(os.Stderr, "\t", phi.Name(), "=", phi)
			}
			fr.phitemps = append(fr.phitemps, fr.get(phi.Edges[predIndex]))
		}
		for i, phi := range phis {
			fr.env[phi.(*ssa.Phi)] = fr.phitemps[i]
		}
	}
	return nonPhis
}

// isTargetPanic reports whether p is a panic of the interpreted program
// (explicit panic or a Go runtime error raised on its behalf).
func isTargetPanic(p any) bool {
	switch p.(type) {
	case targetPanic, runtimeError:
		return true
	}
	return false
}

// doRecover implements the recover() built-in.
func doRecover(caller *frame) value {
	// recover() must be exactly one level beneath the deferred
	// function (two levels beneath the panicking function) to
	// have any effect.  Thus we ignore both "defer recover()" and
	// "defer f() -> g() -> recover()".
	if caller.i.mode&DisableRecover == 0 &&
		caller != nil && !caller.panicking &&
		caller.caller != nil && caller.caller.panicking {
		caller.caller.panicking = false
		p := caller.caller.panic
		caller.caller.panic = nil

		switch p := p.(type) {
		case targetPanic:
			// The target program explicitly called panic().
			return p.v
		case runtimeError:
			return iface{caller.i.runtimeErrorString, p.Error()}
		default:
			panic(fmt.Sprintf("unexpected panic type %T in target call to recover()", p))
		}
	}
	return iface{}
}

var debugPanics = os.Getenv("VSYM_PANICS") != ""
