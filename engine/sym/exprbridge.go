package sym

// expr-lang bridge (DESIGN.md §3.5): expr.Compile/expr.Run are executed by
// the real library (linked natively at the version /repo pins) whenever the
// values an expression refers to are concrete. When they are symbolic the
// expression's AST (from the real parser) is evaluated by a small reference
// evaluator over interpreter values; forms it does not know make the path
// "unsupported" (never silently wrong). The reference evaluator is compared
// with the real VM by selftest and by every native replay.

import (
	"fmt"
	"go/types"
	"reflect"
	"sort"
	"sync"

	"github.com/expr-lang/expr"
	"github.com/expr-lang/expr/ast"
	"github.com/expr-lang/expr/parser"
	"github.com/expr-lang/expr/vm"

	"verif/engine/smt"
)

type exprProgram struct {
	src  string
	prog *vm.Program
	tree ast.Node
}

type exprOpt struct {
	kind string
	name string
	env  any
}

type opaqueNative struct {
	id int
}

var (
	tEmptyIface = types.NewInterfaceType(nil, nil).Complete()
	tAnySlice   = types.NewSlice(tEmptyIface)
	tAnyMap     = types.NewMap(types.Typ[types.String], tEmptyIface)
)

func init() {
	// options are carried as opaque closures and replayed on the real library
	intrinsics["github.com/expr-lang/expr.AllowUndefinedVariables"] = func(fr *frame, a []value) value {
		return &closure{Env: []value{nativeObj{exprOpt{kind: "allowundef"}}}}
	}
	intrinsics["github.com/expr-lang/expr.DisableBuiltin"] = func(fr *frame, a []value) value {
		return &closure{Env: []value{nativeObj{exprOpt{kind: "disable", name: fr.i.concStr(a[0])}}}}
	}
	intrinsics["github.com/expr-lang/expr.Env"] = func(fr *frame, a []value) value {
		nv, ok := fr.i.toNativeAny(a[0], map[int]value{})
		if !ok {
			// symbolic values in the environment: keep their kinds by
			// concretising a copy (types, not values, matter to the compiler)
			nv, ok = fr.i.toNativeAny(fr.i.deepConcretize(a[0]), map[int]value{})
			if !ok {
				unsupported("expr.Env with a non-convertible environment")
			}
		}
		return &closure{Env: []value{nativeObj{exprOpt{kind: "env", env: nv}}}}
	}
	intrinsics["github.com/expr-lang/expr.Compile"] = inExprCompile
	intrinsics["github.com/expr-lang/expr.Run"] = inExprRun
}

func inExprCompile(fr *frame, a []value) value {
	i := fr.i
	src := i.concStr(a[0])
	var opts []expr.Option
	if len(a) > 1 && a[1] != nil {
		for _, o := range a[1].([]value) {
			c, ok := o.(*closure)
			if !ok || c == nil || len(c.Env) != 1 {
				unsupported("expr.Compile with an option the bridge does not know")
			}
			op := c.Env[0].(nativeObj).v.(exprOpt)
			switch op.kind {
			case "allowundef":
				opts = append(opts, expr.AllowUndefinedVariables())
			case "disable":
				opts = append(opts, expr.DisableBuiltin(op.name))
			case "env":
				opts = append(opts, expr.Env(op.env))
			}
		}
	}
	prog, err := expr.Compile(src, opts...)
	if err != nil {
		return tuple{(*value)(nil), i.newError(err.Error(), iface{})}
	}
	tree, perr := parser.Parse(src)
	var node ast.Node
	if perr == nil {
		node = tree.Node
	}
	var cell value = nativeObj{&exprProgram{src: src, prog: prog, tree: node}}
	return tuple{&cell, iface{}}
}

func inExprRun(fr *frame, a []value) value {
	i := fr.i
	p := a[0].(*value)
	if p == nil {
		return tuple{iface{}, i.newError("program is nil", iface{})}
	}
	ep := (*p).(nativeObj).v.(*exprProgram)
	envIf := a[1].(iface)
	env, _ := envIf.v.(*smap)
	refs := identRefs(ep.tree)
	opaque := map[int]value{}
	native := map[string]any{}
	symbolic := false
	if env != nil {
		for _, e := range env.ents {
			k := i.concStr(e.k)
			if !refs[k] && ep.tree != nil {
				continue
			}
			nv, ok := i.toNativeAny(e.v, opaque)
			if !ok {
				symbolic = true
				break
			}
			native[k] = nv
		}
	}
	if !symbolic {
		out, err := expr.Run(ep.prog, native)
		if err != nil {
			return tuple{iface{}, i.newError(err.Error(), iface{})}
		}
		return tuple{i.fromNativeAny(out, opaque), iface{}}
	}
	if ep.tree == nil {
		unsupported("expr-lang: no AST for %q", ep.src)
	}
	ev := &exprEval{i: i, fr: fr, env: env}
	res, errMsg := ev.safeEval(ep.tree)
	if errMsg != "" {
		return tuple{iface{}, i.newError(errMsg, iface{})}
	}
	return tuple{boxAny(res), iface{}}
}

func identRefs(n ast.Node) map[string]bool {
	refs := map[string]bool{}
	if n == nil {
		return refs
	}
	var walk func(n ast.Node)
	walk = func(n ast.Node) {
		switch x := n.(type) {
		case nil:
		case *ast.IdentifierNode:
			refs[x.Value] = true
		case *ast.UnaryNode:
			walk(x.Node)
		case *ast.BinaryNode:
			walk(x.Left)
			walk(x.Right)
		case *ast.ChainNode:
			walk(x.Node)
		case *ast.MemberNode:
			walk(x.Node)
			walk(x.Property)
		case *ast.SliceNode:
			walk(x.Node)
			walk(x.From)
			walk(x.To)
		case *ast.CallNode:
			walk(x.Callee)
			for _, a := range x.Arguments {
				walk(a)
			}
		case *ast.BuiltinNode:
			for _, a := range x.Arguments {
				walk(a)
			}
			walk(x.Map)
		case *ast.PredicateNode:
			walk(x.Node)
		case *ast.ConditionalNode:
			walk(x.Cond)
			walk(x.Exp1)
			walk(x.Exp2)
		case *ast.VariableDeclaratorNode:
			walk(x.Value)
			walk(x.Expr)
		case *ast.SequenceNode:
			for _, a := range x.Nodes {
				walk(a)
			}
		case *ast.ArrayNode:
			for _, a := range x.Nodes {
				walk(a)
			}
		case *ast.MapNode:
			for _, a := range x.Pairs {
				walk(a)
			}
		case *ast.PairNode:
			walk(x.Key)
			walk(x.Value)
		}
	}
	walk(n)
	return refs
}

// toNativeAny converts a concrete interpreter value into a Go value for the
// real expr-lang VM. It fails (ok=false) on symbolic leaves.
func (i *interpreter) toNativeAny(v value, opaque map[int]value) (any, bool) {
	switch x := v.(type) {
	case nil:
		return nil, true
	case bool, int, int8, int16, int32, int64, uint, uint8, uint16, uint32, uint64, float32, float64, string:
		return x, true
	case symBool, symInt, symStr, symBytes:
		return nil, false
	case iface:
		if x.t == nil {
			return nil, true
		}
		return i.toNativeTyped(x.v, x.t, opaque)
	}
	return i.toNativeTyped(v, nil, opaque)
}

func (i *interpreter) toNativeTyped(v value, t types.Type, opaque map[int]value) (any, bool) {
	switch x := v.(type) {
	case nil:
		return nil, true
	case bool, int, int8, int16, int32, int64, uint, uint8, uint16, uint32, uint64, float32, float64, string:
		return x, true
	case symBool, symInt, symStr, symBytes:
		return nil, false
	case iface:
		return i.toNativeAny(x, opaque)
	case []value:
		// typed slices of basic element type keep their Go type
		if t != nil {
			if st, ok := t.Underlying().(*types.Slice); ok {
				if b, ok := st.Elem().Underlying().(*types.Basic); ok {
					switch b.Kind() {
					case types.String:
						out := make([]string, len(x))
						for k, e := range x {
							s, ok := e.(string)
							if !ok {
								return nil, false
							}
							out[k] = s
						}
						return out, true
					case types.Int:
						out := make([]int, len(x))
						for k, e := range x {
							n, ok := e.(int)
							if !ok {
								return nil, false
							}
							out[k] = n
						}
						return out, true
					}
				}
			}
		}
		out := make([]any, len(x))
		for k, e := range x {
			var et types.Type
			if t != nil {
				if st, ok := t.Underlying().(*types.Slice); ok {
					et = st.Elem()
				}
			}
			n, ok := i.toNativeTyped(e, et, opaque)
			if !ok {
				return nil, false
			}
			out[k] = n
		}
		return out, true
	case array:
		out := make([]any, len(x))
		for k, e := range x {
			n, ok := i.toNativeTyped(e, nil, opaque)
			if !ok {
				return nil, false
			}
			out[k] = n
		}
		return out, true
	case *smap:
		if x == nil {
			return map[string]any(nil), true
		}
		out := map[string]any{}
		var vt types.Type
		if t != nil {
			if mt, ok := t.Underlying().(*types.Map); ok {
				vt = mt.Elem()
			}
		}
		for _, e := range x.ents {
			ks, isStr := e.k.(string)
			if !isStr {
				if _, sym := e.k.(symStr); sym {
					return nil, false
				}
				ks = fmt.Sprint(describeValue(e.k))
			}
			n, ok := i.toNativeTyped(e.v, vt, opaque)
			if !ok {
				return nil, false
			}
			out[ks] = n
		}
		return out, true
	case structure:
		if t != nil {
			if st, ok := t.Underlying().(*types.Struct); ok {
				if n, ok := i.toNativeStruct(x, t, st, opaque); ok {
					return n, true
				}
				out := map[string]any{}
				for k := 0; k < st.NumFields(); k++ {
					f := st.Field(k)
					if !f.Exported() {
						continue
					}
					n, ok := i.toNativeTyped(x[k], f.Type(), opaque)
					if !ok {
						return nil, false
					}
					out[f.Name()] = n
				}
				return out, true
			}
		}
	case *value:
		if x == nil {
			// a typed nil pointer stays typed (it is not the nil interface:
			// `v-if="p"` is true for it, `p == nil` too)
			if t != nil {
				if pt, ok := t.Underlying().(*types.Pointer); ok {
					if st, isStruct := pt.Elem().Underlying().(*types.Struct); isStruct {
						if rt := goStructType(pt.Elem(), st); rt != nil {
							prt := reflect.PointerTo(rt)
							nilPtrTypes.Store(prt, t)
							return reflect.Zero(prt).Interface(), true
						}
					}
				}
			}
			return nil, true
		}
		if t != nil {
			if pt, ok := t.Underlying().(*types.Pointer); ok {
				if _, isStruct := pt.Elem().Underlying().(*types.Struct); isStruct {
					return i.toNativeTyped(*x, pt.Elem(), opaque)
				}
			}
		}
	}
	id := len(opaque) + 1
	if t != nil {
		opaque[id] = iface{t, v}
	} else {
		opaque[id] = v
	}
	return &opaqueNative{id}, true
}

// fromNativeAny converts a result of the real VM to an interface value.
func (i *interpreter) fromNativeAny(x any, opaque map[int]value) value {
	switch v := x.(type) {
	case nil:
		return iface{}
	case bool:
		return iface{types.Typ[types.Bool], v}
	case int:
		return iface{types.Typ[types.Int], v}
	case int64:
		return iface{types.Typ[types.Int64], v}
	case int32:
		return iface{types.Typ[types.Int32], v}
	case int8:
		return iface{types.Typ[types.Int8], v}
	case int16:
		return iface{types.Typ[types.Int16], v}
	case uint:
		return iface{types.Typ[types.Uint], v}
	case uint8:
		return iface{types.Typ[types.Uint8], v}
	case uint16:
		return iface{types.Typ[types.Uint16], v}
	case uint32:
		return iface{types.Typ[types.Uint32], v}
	case uint64:
		return iface{types.Typ[types.Uint64], v}
	case float64:
		return iface{types.Typ[types.Float64], v}
	case float32:
		return iface{types.Typ[types.Float32], v}
	case string:
		return iface{types.Typ[types.String], v}
	case *opaqueNative:
		o := opaque[v.id]
		if it, ok := o.(iface); ok {
			return it
		}
		return iface{tEmptyIface, o}
	case []any:
		out := make([]value, len(v))
		for k, e := range v {
			out[k] = i.fromNativeAny(e, opaque)
		}
		return iface{tAnySlice, out}
	case []string:
		out := make([]value, len(v))
		for k, e := range v {
			out[k] = e
		}
		return iface{types.NewSlice(types.Typ[types.String]), out}
	case []int:
		out := make([]value, len(v))
		for k, e := range v {
			out[k] = e
		}
		return iface{types.NewSlice(types.Typ[types.Int]), out}
	case map[string]any:
		m := newSmap(types.Typ[types.String])
		keys := make([]string, 0, len(v))
		for k := range v {
			keys = append(keys, k)
		}
		sort.Strings(keys)
		for _, k := range keys {
			m.ents = append(m.ents, smapEntry{k, i.fromNativeAny(v[k], opaque)})
		}
		return iface{tAnyMap, m}
	}
	rv := reflect.ValueOf(x)
	switch rv.Kind() {
	case reflect.Pointer:
		if rv.IsNil() {
			if t, ok := nilPtrTypes.Load(rv.Type()); ok {
				return iface{t.(types.Type), (*value)(nil)}
			}
		}
	case reflect.Struct:
		if f := rv.FieldByName(structIDField); f.IsValid() && f.Kind() == reflect.Int {
			o := opaque[int(f.Int())]
			if it, ok := o.(iface); ok {
				return it
			}
			return iface{tEmptyIface, o}
		}
	case reflect.Slice:
		out := make([]value, rv.Len())
		for k := range out {
			out[k] = i.fromNativeAny(rv.Index(k).Interface(), opaque)
		}
		return iface{tAnySlice, out}
	}
	unsupported("expr-lang result of type %T", x)
	return nil
}

// boxAny wraps an evaluator result as interface{}.
func boxAny(v value) value {
	switch x := v.(type) {
	case nil:
		return iface{}
	case iface:
		return x
	case bool, symBool:
		return iface{types.Typ[types.Bool], x}
	case int:
		return iface{types.Typ[types.Int], x}
	case symInt:
		return iface{types.Typ[x.k], x}
	case float64:
		return iface{types.Typ[types.Float64], x}
	case string, symStr:
		return iface{types.Typ[types.String], x}
	case []value:
		return iface{tAnySlice, x}
	case *smap:
		return iface{tAnyMap, x}
	}
	unsupported("expr evaluator result %T", v)
	return nil
}

// ---- reference evaluator --------------------------------------------------------

type exprEval struct {
	i   *interpreter
	fr  *frame
	env *smap
}

type exprErr string

func (ev *exprEval) safeEval(n ast.Node) (res value, errMsg string) {
	defer func() {
		if p := recover(); p != nil {
			if e, ok := p.(exprErr); ok {
				errMsg = string(e)
				return
			}
			panic(p)
		}
	}()
	return ev.eval(n), ""
}

func unbox(v value) value {
	if it, ok := v.(iface); ok {
		if it.t == nil {
			return nil
		}
		return unbox(it.v)
	}
	return v
}

func (ev *exprEval) eval(n ast.Node) value {
	i := ev.i
	F := i.F
	switch x := n.(type) {
	case *ast.NilNode:
		return nil
	case *ast.IdentifierNode:
		if ev.env == nil {
			return nil
		}
		v, ok := ev.env.lookup(i, x.Value)
		if !ok {
			return nil
		}
		return unbox(v)
	case *ast.IntegerNode:
		return x.Value
	case *ast.FloatNode:
		return x.Value
	case *ast.BoolNode:
		return x.Value
	case *ast.StringNode:
		return x.Value
	case *ast.ChainNode:
		return ev.eval(x.Node)
	case *ast.UnaryNode:
		v := ev.eval(x.Node)
		switch x.Operator {
		case "!", "not":
			if !isBoolVal(v) {
				panic(exprErr(fmt.Sprintf("invalid operation: %s (mismatched type)", x.Operator)))
			}
			return i.mkBool(F.Not(i.boolTerm(v)))
		case "-":
			switch y := v.(type) {
			case int:
				return -y
			case float64:
				return -y
			case symInt:
				return i.mkIntT(F.Neg(y.t), y.k)
			}
			panic(exprErr("invalid operation: - (mismatched type)"))
		case "+":
			return v
		}
	case *ast.BinaryNode:
		switch x.Operator {
		case "&&", "and", "||", "or":
			l := ev.eval(x.Left)
			if !isBoolVal(l) {
				panic(exprErr(fmt.Sprintf("invalid operation: %s (mismatched types)", x.Operator)))
			}
			// short-circuit by forking on a symbolic left operand
			lb := l
			if s, ok := l.(symBool); ok {
				lb = i.branch(s.t)
			}
			and := x.Operator == "&&" || x.Operator == "and"
			if and && !lb.(bool) {
				return false
			}
			if !and && lb.(bool) {
				return true
			}
			r := ev.eval(x.Right)
			if !isBoolVal(r) {
				panic(exprErr(fmt.Sprintf("invalid operation: %s (mismatched types)", x.Operator)))
			}
			return r
		case "==", "!=":
			l, r := ev.eval(x.Left), ev.eval(x.Right)
			eq := ev.equal(l, r)
			if x.Operator == "!=" {
				return i.mkBool(F.Not(i.boolTerm(eq)))
			}
			return eq
		case "<", ">", "<=", ">=":
			l, r := ev.eval(x.Left), ev.eval(x.Right)
			if isStrVal(l) && isStrVal(r) {
				a, b := i.strOf(l), i.strOf(r)
				switch x.Operator {
				case "<":
					return i.mkBool(i.L.less(a, b))
				case ">":
					return i.mkBool(i.L.less(b, a))
				case "<=":
					return i.mkBool(F.Not(i.L.less(b, a)))
				default:
					return i.mkBool(F.Not(i.L.less(a, b)))
				}
			}
			if isIntVal(l) && isIntVal(r) {
				a, b := ev.int64Term(l), ev.int64Term(r)
				switch x.Operator {
				case "<":
					return i.mkBool(F.Slt(a, b))
				case ">":
					return i.mkBool(F.Slt(b, a))
				case "<=":
					return i.mkBool(F.Sle(a, b))
				default:
					return i.mkBool(F.Sle(b, a))
				}
			}
			if lf, ok := toFloat(l); ok {
				if rf, ok := toFloat(r); ok {
					switch x.Operator {
					case "<":
						return lf < rf
					case ">":
						return lf > rf
					case "<=":
						return lf <= rf
					default:
						return lf >= rf
					}
				}
			}
			panic(exprErr(fmt.Sprintf("invalid operation: %s (mismatched types)", x.Operator)))
		case "+":
			l, r := ev.eval(x.Left), ev.eval(x.Right)
			if isStrVal(l) && isStrVal(r) {
				return i.mkStr(i.L.concat(i.strOf(l), i.strOf(r)))
			}
			if isIntVal(l) && isIntVal(r) {
				return i.mkIntT(F.Add(ev.int64Term(l), ev.int64Term(r)), types.Int)
			}
			if lf, ok := toFloat(l); ok {
				if rf, ok := toFloat(r); ok {
					return lf + rf
				}
			}
			panic(exprErr("invalid operation: + (mismatched types)"))
		case "-", "*":
			l, r := ev.eval(x.Left), ev.eval(x.Right)
			if isIntVal(l) && isIntVal(r) {
				if x.Operator == "-" {
					return i.mkIntT(F.Sub(ev.int64Term(l), ev.int64Term(r)), types.Int)
				}
				return i.mkIntT(F.Mul(ev.int64Term(l), ev.int64Term(r)), types.Int)
			}
			if lf, ok := toFloat(l); ok {
				if rf, ok := toFloat(r); ok {
					if x.Operator == "-" {
						return lf - rf
					}
					return lf * rf
				}
			}
			panic(exprErr(fmt.Sprintf("invalid operation: %s (mismatched types)", x.Operator)))
		}
	case *ast.ConditionalNode:
		c := ev.eval(x.Cond)
		if !isBoolVal(c) {
			panic(exprErr("non-bool expression used as condition"))
		}
		cb := c
		if s, ok := c.(symBool); ok {
			cb = i.branch(s.t)
		}
		if cb.(bool) {
			return ev.eval(x.Exp1)
		}
		return ev.eval(x.Exp2)
	case *ast.MemberNode:
		base := ev.eval(x.Node)
		prop := ev.eval(x.Property)
		switch b := base.(type) {
		case nil:
			if x.Optional {
				return nil
			}
			panic(exprErr("cannot fetch from <nil>"))
		case *smap:
			v, ok := b.lookup(i, prop)
			if !ok {
				return nil
			}
			return unbox(v)
		case []value:
			idx := i.concretize(prop)
			k, ok := idx.(int)
			if !ok {
				panic(exprErr("cannot use non-int as index"))
			}
			if k < 0 {
				k += len(b)
			}
			if k < 0 || k >= len(b) {
				panic(exprErr("index out of range"))
			}
			return unbox(b[k])
		}
	case *ast.BuiltinNode:
		if x.Name == "len" && len(x.Arguments) == 1 {
			v := ev.eval(x.Arguments[0])
			switch y := v.(type) {
			case string:
				return len([]rune(y))
			case symStr:
				return i.mkIntT(i.L.length(y.Str), types.Int)
			case []value:
				return len(y)
			case *smap:
				return y.len()
			}
		}
	}
	unsupported("expr reference evaluator: node %T in %q", n, n.String())
	return nil
}

func isIntVal(v value) bool {
	if _, ok := v.(symInt); ok {
		return true
	}
	_, _, ok := intKind(v)
	return ok
}

func toFloat(v value) (float64, bool) {
	switch x := v.(type) {
	case float64:
		return x, true
	case float32:
		return float64(x), true
	}
	if _, _, ok := intKind(v); ok {
		return float64(asInt64(v)), true
	}
	return 0, false
}

func (ev *exprEval) int64Term(v value) *smt.Term {
	t, k := ev.i.intTerm(v)
	return ev.i.F.Resize(t, 64, kindSigned(k))
}

// equal follows expr-lang's runtime.Equal: values of different kinds are
// unequal, numbers compare by value.
func (ev *exprEval) equal(l, r value) value {
	i := ev.i
	switch {
	case l == nil || r == nil:
		return l == nil && r == nil
	case isStrVal(l) && isStrVal(r):
		return i.mkBool(i.L.eq(i.strOf(l), i.strOf(r)))
	case isBoolVal(l) && isBoolVal(r):
		return i.mkBool(i.F.Eq(i.boolTerm(l), i.boolTerm(r)))
	case isIntVal(l) && isIntVal(r):
		return i.mkBool(i.F.Eq(ev.int64Term(l), ev.int64Term(r)))
	}
	if lf, ok := toFloat(l); ok {
		if rf, ok := toFloat(r); ok {
			return lf == rf
		}
	}
	if isSym(l) || isSym(r) {
		return false // different kinds
	}
	ln, ok1 := i.toNativeAny(l, map[int]value{})
	rn, ok2 := i.toNativeAny(r, map[int]value{})
	if ok1 && ok2 {
		return reflect.DeepEqual(ln, rn)
	}
	return false
}

// ---- structs as real Go structs -------------------------------------------------

// A struct of the program under test is handed to the real expression VM as
// a value of a reflect.StructOf type with the same exported field names, tags
// and (basic) field types, so that the VM's struct code paths (field fetch by
// name or by index, typed comparisons) behave as they do natively. A hidden
// field carries the index of the original engine value for the way back.
const structIDField = "ZZid"

var structTypes sync.Map // types.Type.String() -> reflect.Type or nil

var anyType = reflect.TypeOf((*any)(nil)).Elem()

func goFieldType(t types.Type) reflect.Type {
	switch u := t.Underlying().(type) {
	case *types.Basic:
		switch u.Kind() {
		case types.Bool:
			return reflect.TypeOf(false)
		case types.Int:
			return reflect.TypeOf(int(0))
		case types.Int8:
			return reflect.TypeOf(int8(0))
		case types.Int16:
			return reflect.TypeOf(int16(0))
		case types.Int32:
			return reflect.TypeOf(int32(0))
		case types.Int64:
			return reflect.TypeOf(int64(0))
		case types.Uint:
			return reflect.TypeOf(uint(0))
		case types.Uint8:
			return reflect.TypeOf(uint8(0))
		case types.Uint16:
			return reflect.TypeOf(uint16(0))
		case types.Uint32:
			return reflect.TypeOf(uint32(0))
		case types.Uint64:
			return reflect.TypeOf(uint64(0))
		case types.Float32:
			return reflect.TypeOf(float32(0))
		case types.Float64:
			return reflect.TypeOf(float64(0))
		case types.String:
			return reflect.TypeOf("")
		}
	case *types.Slice:
		if b, ok := u.Elem().Underlying().(*types.Basic); ok {
			switch b.Kind() {
			case types.String:
				return reflect.TypeOf([]string(nil))
			case types.Int:
				return reflect.TypeOf([]int(nil))
			}
		}
		return reflect.TypeOf([]any(nil))
	case *types.Map:
		if b, ok := u.Key().Underlying().(*types.Basic); ok && b.Kind() == types.String {
			return reflect.TypeOf(map[string]any(nil))
		}
	case *types.Struct:
		if rt := goStructType(t, u); rt != nil {
			return rt
		}
	}
	// pointers, interfaces, nested things without a faithful Go type
	return anyType
}

// reflect type of a typed nil pointer handed to the VM -> its go/types type
var nilPtrTypes sync.Map

func goStructType(t types.Type, st *types.Struct) reflect.Type {
	key := t.String()
	if c, ok := structTypes.Load(key); ok {
		rt, _ := c.(reflect.Type)
		return rt
	}
	var fields []reflect.StructField
	for k := 0; k < st.NumFields(); k++ {
		f := st.Field(k)
		if !f.Exported() || f.Embedded() || f.Name() == structIDField {
			if f.Embedded() {
				structTypes.Store(key, nil)
				return nil
			}
			continue
		}
		fields = append(fields, reflect.StructField{Name: f.Name(), Type: goFieldType(f.Type()), Tag: reflect.StructTag(st.Tag(k))})
	}
	fields = append(fields, reflect.StructField{Name: structIDField, Type: reflect.TypeOf(int(0)), Tag: `expr:"-" json:"-"`})
	var rt reflect.Type
	func() {
		defer func() {
			if recover() != nil {
				rt = nil
			}
		}()
		rt = reflect.StructOf(fields)
	}()
	if rt == nil {
		structTypes.Store(key, nil)
		return nil
	}
	structTypes.Store(key, rt)
	return rt
}

func (i *interpreter) toNativeStruct(x structure, t types.Type, st *types.Struct, opaque map[int]value) (any, bool) {
	rt := goStructType(t, st)
	if rt == nil {
		return nil, false
	}
	rv := reflect.New(rt).Elem()
	for k := 0; k < st.NumFields(); k++ {
		f := st.Field(k)
		if !f.Exported() {
			continue
		}
		fv := rv.FieldByName(f.Name())
		if !fv.IsValid() {
			return nil, false
		}
		n, ok := i.toNativeTyped(x[k], f.Type(), opaque)
		if !ok {
			return nil, false
		}
		if n == nil {
			continue
		}
		nv := reflect.ValueOf(n)
		switch {
		case nv.Type().AssignableTo(fv.Type()):
			fv.Set(nv)
		case nv.Type().ConvertibleTo(fv.Type()) && nv.Kind() == fv.Kind():
			fv.Set(nv.Convert(fv.Type()))
		default:
			return nil, false
		}
	}
	id := len(opaque) + 1
	opaque[id] = iface{t, x}
	rv.FieldByName(structIDField).SetInt(int64(id))
	return rv.Interface(), true
}
