package smt

import (
	"bufio"
	"fmt"
	"io"
	"os/exec"
	"sort"
	"strconv"
	"strings"
	"time"
)

type Result int

const (
	Unsat Result = iota
	Sat
	Unknown
)

func (r Result) String() string { return [...]string{"unsat", "sat", "unknown"}[r] }

// Solver drives one persistent SMT solver process. Definitions are global
// (:global-declarations), queries are check-sat-assuming over defined
// Boolean terms, so every term is sent to the solver at most once.
type Solver struct {
	F       *Factory
	cmd     *exec.Cmd
	in      io.WriteCloser
	out     *bufio.Reader
	defined map[int]bool
	nvars   int
	Name    string

	NSat, NUnsat, NUnknown int
	Time                   time.Duration
	TimeoutMs              int
	Trace                  io.Writer
	dead                   bool

	// fallback: a second process used one-shot ((reset) + cone of influence +
	// check-sat) when the incremental core does not answer within FastMs.
	FastMs       int
	fb           *exec.Cmd
	fbIn         io.WriteCloser
	fbOut        *bufio.Reader
	NFallback    int
	FallbackKind string
}

// NewSolver starts solver kind: "z3" (default /usr/bin/z3), "z3-new", "cvc5".
func NewSolver(f *Factory, kind string, timeoutMs int) (*Solver, error) {
	var cmd *exec.Cmd
	switch kind {
	case "", "z3":
		kind = "z3"
		cmd = exec.Command("z3", "-in", "-smt2")
	case "z3-new":
		cmd = exec.Command("z3-new", "-in", "-smt2")
	case "cvc5":
		cmd = exec.Command("cvc5", "--incremental", "--lang=smt2", "--produce-models", fmt.Sprintf("--tlimit-per=%d", timeoutMs))
	default:
		return nil, fmt.Errorf("unknown solver %q", kind)
	}
	in, err := cmd.StdinPipe()
	if err != nil {
		return nil, err
	}
	outp, err := cmd.StdoutPipe()
	if err != nil {
		return nil, err
	}
	cmd.Stderr = nil
	if err := cmd.Start(); err != nil {
		return nil, err
	}
	s := &Solver{F: f, cmd: cmd, in: in, out: bufio.NewReaderSize(outp, 1<<20), defined: map[int]bool{}, Name: kind, TimeoutMs: timeoutMs, FastMs: 250}
	s.send("(set-option :print-success false)")
	s.send("(set-option :global-declarations true)")
	s.send("(set-option :produce-models true)")
	if kind != "cvc5" {
		s.send(fmt.Sprintf("(set-option :timeout %d)", s.FastMs))
	} else {
		s.send("(set-logic QF_BV)")
	}
	return s, nil
}

func (s *Solver) Close() {
	if s.cmd != nil {
		s.in.Close()
		s.cmd.Process.Kill()
		s.cmd.Wait()
		s.cmd = nil
	}
	if s.fb != nil {
		s.fbIn.Close()
		s.fb.Process.Kill()
		s.fb.Wait()
		s.fb = nil
	}
}

func (s *Solver) send(line string) {
	if s.Trace != nil {
		fmt.Fprintln(s.Trace, line)
	}
	io.WriteString(s.in, line)
	io.WriteString(s.in, "\n")
}

func (s *Solver) define(t *Term) {
	if t.Op == OpConst || s.defined[t.ID] {
		return
	}
	// iterative post-order to survive very deep terms
	type fr struct {
		t *Term
		i int
	}
	stack := []fr{{t, 0}}
	for len(stack) > 0 {
		top := &stack[len(stack)-1]
		if top.t.Op == OpConst || s.defined[top.t.ID] {
			stack = stack[:len(stack)-1]
			continue
		}
		if top.i < len(top.t.Args) {
			a := top.t.Args[top.i]
			top.i++
			if a.Op != OpConst && !s.defined[a.ID] {
				stack = append(stack, fr{a, 0})
			}
			continue
		}
		tt := top.t
		stack = stack[:len(stack)-1]
		s.defined[tt.ID] = true
		if tt.Op == OpVar {
			s.send(fmt.Sprintf("(declare-const |%s| %s)", tt.Name, sortOf(tt)))
			s.nvars++
		} else {
			s.send(fmt.Sprintf("(define-fun t%d () %s %s)", tt.ID, sortOf(tt), body(tt)))
		}
	}
}

// Check decides the conjunction of assumps. On Sat it returns a model of all
// variables the factory knows.
func (s *Solver) checkIncremental(assumps []*Term) (Result, Model) {
	if s.dead {
		s.NUnknown++
		return Unknown, nil
	}
	var lits []string
	for _, a := range assumps {
		if a.IsTrue() {
			continue
		}
		if a.IsFalse() {
			s.NUnsat++
			return Unsat, nil
		}
		s.define(a)
		lits = append(lits, ref(a))
	}
	// make sure every variable is declared so get-value works
	for _, v := range s.F.Vars {
		s.define(v)
	}
	t0 := time.Now()
	s.send("(check-sat-assuming (" + strings.Join(lits, " ") + "))")
	line, err := s.readLine()
	s.Time += time.Since(t0)
	if err != nil {
		s.dead = true
		s.NUnknown++
		return Unknown, nil
	}
	switch strings.TrimSpace(line) {
	case "unsat":
		s.NUnsat++
		return Unsat, nil
	case "sat":
		s.NSat++
		if len(s.F.Vars) == 0 {
			return Sat, Model{}
		}
		var names []string
		for _, v := range s.F.Vars {
			names = append(names, ref(v))
		}
		s.send("(get-value (" + strings.Join(names, " ") + "))")
		txt, err := s.readSexp()
		if err != nil {
			s.dead = true
			return Unknown, nil
		}
		return Sat, parseModel(txt)
	default:
		// "unknown", "timeout" or an (error ...) line: inconclusive.
		if strings.HasPrefix(strings.TrimSpace(line), "(error") {
			// drain nothing further; keep going
		}
		s.NUnknown++
		return Unknown, nil
	}
}

func (s *Solver) readLine() (string, error) {
	for {
		line, err := s.out.ReadString('\n')
		if err != nil {
			return "", err
		}
		if strings.TrimSpace(line) == "" {
			continue
		}
		return line, nil
	}
}

// readSexp reads one balanced s-expression from the solver output.
func (s *Solver) readSexp() (string, error) {
	var sb strings.Builder
	depth := 0
	started := false
	inBar := false
	for {
		c, err := s.out.ReadByte()
		if err != nil {
			return "", err
		}
		sb.WriteByte(c)
		if inBar {
			if c == '|' {
				inBar = false
			}
			continue
		}
		switch c {
		case '|':
			inBar = true
		case '(':
			depth++
			started = true
		case ')':
			depth--
			if started && depth == 0 {
				return sb.String(), nil
			}
		}
	}
}

func parseModel(txt string) Model {
	m := Model{}
	// tokens: ( ( name value ) ( name value ) ... )
	toks := tokenize(txt)
	for i := 0; i+3 < len(toks); i++ {
		if toks[i] == "(" && toks[i+1] != "(" && toks[i+3] == ")" {
			name := strings.Trim(toks[i+1], "|")
			val := toks[i+2]
			switch {
			case val == "true":
				m[name] = 1
			case val == "false":
				m[name] = 0
			case strings.HasPrefix(val, "#x"):
				v, _ := strconv.ParseUint(val[2:], 16, 64)
				m[name] = v
			case strings.HasPrefix(val, "#b"):
				v, _ := strconv.ParseUint(val[2:], 2, 64)
				m[name] = v
			}
			i += 3
		}
	}
	return m
}

func tokenize(s string) []string {
	var toks []string
	i := 0
	for i < len(s) {
		c := s[i]
		switch {
		case c == '(' || c == ')':
			toks = append(toks, string(c))
			i++
		case c == ' ' || c == '\n' || c == '\t' || c == '\r':
			i++
		case c == '|':
			j := i + 1
			for j < len(s) && s[j] != '|' {
				j++
			}
			toks = append(toks, s[i:j+1])
			i = j + 1
		default:
			j := i
			for j < len(s) && !strings.ContainsRune("() \n\t\r", rune(s[j])) {
				j++
			}
			toks = append(toks, s[i:j])
			i = j
		}
	}
	return toks
}

// Dump renders a standalone SMT-LIB2 script deciding the conjunction of
// assumps (cone of influence only, no set-logic), for cross-checking with
// other solvers.
func (f *Factory) Dump(assumps []*Term) string {
	var sb strings.Builder
	seen := map[int]bool{}
	var order []*Term
	var visit func(t *Term)
	visit = func(t *Term) {
		if t.Op == OpConst || seen[t.ID] {
			return
		}
		seen[t.ID] = true
		for _, a := range t.Args {
			visit(a)
		}
		order = append(order, t)
	}
	for _, a := range assumps {
		visit(a)
	}
	sort.SliceStable(order, func(i, j int) bool { return order[i].ID < order[j].ID })
	for _, t := range order {
		if t.Op == OpVar {
			fmt.Fprintf(&sb, "(declare-const |%s| %s)\n", t.Name, sortOf(t))
		} else {
			fmt.Fprintf(&sb, "(define-fun t%d () %s %s)\n", t.ID, sortOf(t), body(t))
		}
	}
	for _, a := range assumps {
		fmt.Fprintf(&sb, "(assert %s)\n", ref(a))
	}
	sb.WriteString("(check-sat)\n")
	return sb.String()
}

// CheckOneShot runs a standalone script through the named solver binary.
func CheckOneShot(kind, script string, timeoutS int) Result {
	var cmd *exec.Cmd
	switch kind {
	case "z3", "z3-new":
		cmd = exec.Command(kind, "-in", "-smt2", fmt.Sprintf("-T:%d", timeoutS))
	case "cvc5":
		script = "(set-logic QF_BV)\n" + script
		cmd = exec.Command("cvc5", "--lang=smt2", fmt.Sprintf("--tlimit=%d", timeoutS*1000))
	}
	cmd.Stdin = strings.NewReader(script)
	out, _ := cmd.Output()
	txt := string(out)
	if strings.Contains(txt, "(error") {
		return Unknown
	}
	for _, l := range strings.Split(txt, "\n") {
		switch strings.TrimSpace(l) {
		case "sat":
			return Sat
		case "unsat":
			return Unsat
		}
	}
	return Unknown
}

// Check decides the conjunction of assumps: first on the incremental
// process under a short time limit, then (if that is inconclusive) one-shot
// on a fresh solver context, which uses the solver's bit-blasting pipeline.
func (s *Solver) Check(assumps []*Term) (Result, Model) {
	for _, a := range assumps {
		if a.IsFalse() {
			s.NUnsat++
			return Unsat, nil
		}
	}
	if s.FastMs > 0 && !s.dead {
		r, m := s.checkIncremental(assumps)
		if r != Unknown {
			return r, m
		}
		s.NUnknown-- // not final
	}
	return s.checkOneShot(assumps)
}

func (s *Solver) startFallback() error {
	kind := s.FallbackKind
	if kind == "" {
		kind = "z3-new"
	}
	cmd := exec.Command(kind, "-in", "-smt2")
	in, err := cmd.StdinPipe()
	if err != nil {
		return err
	}
	outp, err := cmd.StdoutPipe()
	if err != nil {
		return err
	}
	if err := cmd.Start(); err != nil {
		return err
	}
	s.fb, s.fbIn, s.fbOut = cmd, in, bufio.NewReaderSize(outp, 1<<20)
	return nil
}

func (s *Solver) checkOneShot(assumps []*Term) (Result, Model) {
	if s.fb == nil {
		if err := s.startFallback(); err != nil {
			s.NUnknown++
			return Unknown, nil
		}
	}
	s.NFallback++
	var sb strings.Builder
	sb.WriteString("(reset)\n(set-option :print-success false)\n(set-option :produce-models true)\n")
	fmt.Fprintf(&sb, "(set-option :timeout %d)\n", s.TimeoutMs)
	// cone of influence
	seen := map[int]bool{}
	var order []*Term
	var stack []*Term
	for _, a := range assumps {
		stack = append(stack, a)
	}
	for len(stack) > 0 {
		t := stack[len(stack)-1]
		stack = stack[:len(stack)-1]
		if t.Op == OpConst || seen[t.ID] {
			continue
		}
		seen[t.ID] = true
		order = append(order, t)
		stack = append(stack, t.Args...)
	}
	sort.Slice(order, func(i, j int) bool { return order[i].ID < order[j].ID })
	var vars []*Term
	for _, t := range order {
		if t.Op == OpVar {
			vars = append(vars, t)
			fmt.Fprintf(&sb, "(declare-const |%s| %s)\n", t.Name, sortOf(t))
		} else {
			fmt.Fprintf(&sb, "(define-fun t%d () %s %s)\n", t.ID, sortOf(t), body(t))
		}
	}
	for _, a := range assumps {
		if a.IsTrue() {
			continue
		}
		fmt.Fprintf(&sb, "(assert %s)\n", ref(a))
	}
	sb.WriteString("(check-sat)\n")
	t0 := time.Now()
	io.WriteString(s.fbIn, sb.String())
	line, err := readLineFrom(s.fbOut)
	s.Time += time.Since(t0)
	if err != nil {
		s.fb.Process.Kill()
		s.fb.Wait()
		s.fb = nil
		s.NUnknown++
		return Unknown, nil
	}
	switch strings.TrimSpace(line) {
	case "unsat":
		s.NUnsat++
		return Unsat, nil
	case "sat":
		s.NSat++
		if len(vars) == 0 {
			return Sat, Model{}
		}
		var names []string
		for _, v := range vars {
			names = append(names, ref(v))
		}
		io.WriteString(s.fbIn, "(get-value ("+strings.Join(names, " ")+"))\n")
		txt, err := readSexpFrom(s.fbOut)
		if err != nil {
			s.NUnknown++
			return Unknown, nil
		}
		return Sat, parseModel(txt)
	}
	s.NUnknown++
	return Unknown, nil
}

func readLineFrom(r *bufio.Reader) (string, error) {
	for {
		line, err := r.ReadString('\n')
		if err != nil {
			return "", err
		}
		if strings.TrimSpace(line) == "" {
			continue
		}
		return line, nil
	}
}

func readSexpFrom(r *bufio.Reader) (string, error) {
	var sb strings.Builder
	depth := 0
	started := false
	inBar := false
	for {
		c, err := r.ReadByte()
		if err != nil {
			return "", err
		}
		sb.WriteByte(c)
		if inBar {
			if c == '|' {
				inBar = false
			}
			continue
		}
		switch c {
		case '|':
			inBar = true
		case '(':
			depth++
			started = true
		case ')':
			depth--
			if started && depth == 0 {
				return sb.String(), nil
			}
		}
	}
}
