// Package smt is a small hash-consed term language over Bool and fixed-width
// bit-vectors with constant folding, an evaluator and SMT-LIB2 emission.
// Everything the engine sends to a solver is built from these terms
// (QF_BV + Bool only; no arrays, strings or quantifiers).
package smt

import (
	"fmt"
	"strings"
)

type Op uint8

const (
	OpConst Op = iota // bool (w==0) or bv constant
	OpVar
	OpNot
	OpAnd
	OpOr
	OpIte
	OpEq
	OpAdd
	OpSub
	OpMul
	OpBVAnd
	OpBVOr
	OpBVXor
	OpBVNot
	OpNeg
	OpShl
	OpLshr
	OpAshr
	OpUdiv
	OpUrem
	OpSdiv
	OpSrem
	OpExtract // hi,lo
	OpZext    // to width w
	OpSext
	OpConcat
	OpUlt
	OpUle
	OpSlt
	OpSle
)

var opNames = map[Op]string{
	OpNot: "not", OpAnd: "and", OpOr: "or", OpIte: "ite", OpEq: "=",
	OpAdd: "bvadd", OpSub: "bvsub", OpMul: "bvmul", OpBVAnd: "bvand", OpBVOr: "bvor",
	OpBVXor: "bvxor", OpBVNot: "bvnot", OpNeg: "bvneg", OpShl: "bvshl", OpLshr: "bvlshr",
	OpAshr: "bvashr", OpUdiv: "bvudiv", OpUrem: "bvurem", OpSdiv: "bvsdiv", OpSrem: "bvsrem",
	OpConcat: "concat", OpUlt: "bvult", OpUle: "bvule", OpSlt: "bvslt", OpSle: "bvsle",
}

// Term is an immutable node. W==0 means Bool.
type Term struct {
	ID   int
	Op   Op
	W    int
	Args []*Term
	Val  uint64 // OpConst
	Name string // OpVar
	Hi   int    // OpExtract
	Lo   int
}

func (t *Term) IsConst() bool { return t.Op == OpConst }
func (t *Term) IsBool() bool  { return t.W == 0 }
func (t *Term) IsTrue() bool  { return t.Op == OpConst && t.W == 0 && t.Val == 1 }
func (t *Term) IsFalse() bool { return t.Op == OpConst && t.W == 0 && t.Val == 0 }

// Factory owns a hash-consing table. Not safe for concurrent use.
type Factory struct {
	tab   map[string]*Term
	terms []*Term
	Vars  []*Term
	True  *Term
	False *Term
}

func NewFactory() *Factory {
	f := &Factory{tab: map[string]*Term{}}
	f.True = f.mk(&Term{Op: OpConst, W: 0, Val: 1})
	f.False = f.mk(&Term{Op: OpConst, W: 0, Val: 0})
	return f
}

func (f *Factory) NumTerms() int { return len(f.terms) }

func key(t *Term) string {
	var sb strings.Builder
	fmt.Fprintf(&sb, "%d/%d/%d/%d/%d/%s", t.Op, t.W, t.Val, t.Hi, t.Lo, t.Name)
	for _, a := range t.Args {
		fmt.Fprintf(&sb, ",%d", a.ID)
	}
	return sb.String()
}

func (f *Factory) mk(t *Term) *Term {
	k := key(t)
	if o, ok := f.tab[k]; ok {
		return o
	}
	t.ID = len(f.terms)
	f.terms = append(f.terms, t)
	f.tab[k] = t
	if t.Op == OpVar {
		f.Vars = append(f.Vars, t)
	}
	return t
}

func mask(w int) uint64 {
	if w >= 64 {
		return ^uint64(0)
	}
	return (uint64(1) << uint(w)) - 1
}

func signExt(v uint64, w int) int64 {
	if w >= 64 {
		return int64(v)
	}
	if v&(1<<uint(w-1)) != 0 {
		return int64(v | ^mask(w))
	}
	return int64(v)
}

func (f *Factory) Bool(b bool) *Term {
	if b {
		return f.True
	}
	return f.False
}

func (f *Factory) BV(v uint64, w int) *Term {
	if w <= 0 || w > 64 {
		panic(fmt.Sprintf("smt: bad width %d", w))
	}
	return f.mk(&Term{Op: OpConst, W: w, Val: v & mask(w)})
}

func (f *Factory) BoolVar(name string) *Term { return f.mk(&Term{Op: OpVar, W: 0, Name: name}) }
func (f *Factory) BVVar(name string, w int) *Term {
	return f.mk(&Term{Op: OpVar, W: w, Name: name})
}

func (f *Factory) Not(a *Term) *Term {
	if a.W != 0 {
		panic("smt: Not of non-bool")
	}
	if a.IsConst() {
		return f.Bool(a.Val == 0)
	}
	if a.Op == OpNot {
		return a.Args[0]
	}
	return f.mk(&Term{Op: OpNot, Args: []*Term{a}})
}

func (f *Factory) And(as ...*Term) *Term {
	var out []*Term
	seen := map[int]bool{}
	for _, a := range as {
		if a.W != 0 {
			panic("smt: And of non-bool")
		}
		if a.IsFalse() {
			return f.False
		}
		if a.IsTrue() || seen[a.ID] {
			continue
		}
		if a.Op == OpAnd {
			for _, b := range a.Args {
				if !seen[b.ID] {
					seen[b.ID] = true
					out = append(out, b)
				}
			}
			continue
		}
		seen[a.ID] = true
		out = append(out, a)
	}
	for _, a := range out {
		if a.Op == OpNot && seen[a.Args[0].ID] {
			return f.False
		}
	}
	switch len(out) {
	case 0:
		return f.True
	case 1:
		return out[0]
	}
	return f.mk(&Term{Op: OpAnd, Args: out})
}

func (f *Factory) Or(as ...*Term) *Term {
	var out []*Term
	seen := map[int]bool{}
	for _, a := range as {
		if a.W != 0 {
			panic("smt: Or of non-bool")
		}
		if a.IsTrue() {
			return f.True
		}
		if a.IsFalse() || seen[a.ID] {
			continue
		}
		if a.Op == OpOr {
			for _, b := range a.Args {
				if !seen[b.ID] {
					seen[b.ID] = true
					out = append(out, b)
				}
			}
			continue
		}
		seen[a.ID] = true
		out = append(out, a)
	}
	for _, a := range out {
		if a.Op == OpNot && seen[a.Args[0].ID] {
			return f.True
		}
	}
	switch len(out) {
	case 0:
		return f.False
	case 1:
		return out[0]
	}
	return f.mk(&Term{Op: OpOr, Args: out})
}

func (f *Factory) Implies(a, b *Term) *Term { return f.Or(f.Not(a), b) }

func (f *Factory) Ite(c, a, b *Term) *Term {
	if c.W != 0 || a.W != b.W {
		panic(fmt.Sprintf("smt: Ite sorts c=%d a=%d b=%d", c.W, a.W, b.W))
	}
	if c.IsTrue() {
		return a
	}
	if c.IsFalse() {
		return b
	}
	if a == b {
		return a
	}
	if a.W == 0 {
		if a.IsTrue() && b.IsFalse() {
			return c
		}
		if a.IsFalse() && b.IsTrue() {
			return f.Not(c)
		}
		if a.IsTrue() {
			return f.Or(c, b)
		}
		if a.IsFalse() {
			return f.And(f.Not(c), b)
		}
		if b.IsTrue() {
			return f.Or(f.Not(c), a)
		}
		if b.IsFalse() {
			return f.And(c, a)
		}
	}
	if c.Op == OpNot {
		return f.Ite(c.Args[0], b, a)
	}
	return f.mk(&Term{Op: OpIte, W: a.W, Args: []*Term{c, a, b}})
}

func (f *Factory) Eq(a, b *Term) *Term {
	if a.W != b.W {
		panic(fmt.Sprintf("smt: Eq widths %d %d", a.W, b.W))
	}
	if a == b {
		return f.True
	}
	if a.IsConst() && b.IsConst() {
		return f.Bool(a.Val == b.Val)
	}
	if a.W == 0 {
		if a.IsTrue() {
			return b
		}
		if b.IsTrue() {
			return a
		}
		if a.IsFalse() {
			return f.Not(b)
		}
		if b.IsFalse() {
			return f.Not(a)
		}
	}
	// push equality with a constant through ite with constant leaves
	if b.IsConst() && a.Op == OpIte {
		if a.Args[1].IsConst() || a.Args[2].IsConst() {
			return f.Ite(a.Args[0], f.Eq(a.Args[1], b), f.Eq(a.Args[2], b))
		}
	}
	if a.IsConst() && b.Op == OpIte {
		return f.Eq(b, a)
	}
	if b.IsConst() && a.Op == OpZext {
		in := a.Args[0]
		if b.Val&^mask(in.W) != 0 {
			return f.False
		}
		return f.Eq(in, f.BV(b.Val, in.W))
	}
	if a.IsConst() && b.Op == OpZext {
		return f.Eq(b, a)
	}
	if a.ID > b.ID {
		a, b = b, a
	}
	return f.mk(&Term{Op: OpEq, Args: []*Term{a, b}})
}

func (f *Factory) bin(op Op, a, b *Term) *Term {
	if a.W != b.W || a.W == 0 {
		panic(fmt.Sprintf("smt: %s widths %d %d", opNames[op], a.W, b.W))
	}
	w := a.W
	if a.IsConst() && b.IsConst() {
		if v, ok := foldBin(op, a.Val, b.Val, w); ok {
			return f.BV(v, w)
		}
	}
	switch op {
	case OpAdd:
		if a.IsConst() && a.Val == 0 {
			return b
		}
		if b.IsConst() && b.Val == 0 {
			return a
		}
		// (x + c1) + c2
		if b.IsConst() && a.Op == OpAdd && a.Args[1].IsConst() {
			return f.bin(OpAdd, a.Args[0], f.BV(a.Args[1].Val+b.Val, w))
		}
		if a.IsConst() {
			a, b = b, a
		}
	case OpSub:
		if b.IsConst() && b.Val == 0 {
			return a
		}
		if a == b {
			return f.BV(0, w)
		}
		if b.IsConst() {
			return f.bin(OpAdd, a, f.BV(-b.Val, w))
		}
	case OpMul:
		if a.IsConst() {
			a, b = b, a
		}
		if b.IsConst() && b.Val == 0 {
			return b
		}
		if b.IsConst() && b.Val == 1 {
			return a
		}
	case OpBVAnd:
		if a.IsConst() {
			a, b = b, a
		}
		if b.IsConst() && b.Val == 0 {
			return b
		}
		if b.IsConst() && b.Val == mask(w) {
			return a
		}
		if a == b {
			return a
		}
	case OpBVOr, OpBVXor:
		if a.IsConst() {
			a, b = b, a
		}
		if b.IsConst() && b.Val == 0 {
			return a
		}
	case OpShl, OpLshr, OpAshr:
		if b.IsConst() && b.Val == 0 {
			return a
		}
	}
	return f.mk(&Term{Op: op, W: w, Args: []*Term{a, b}})
}

func foldBin(op Op, x, y uint64, w int) (uint64, bool) {
	m := mask(w)
	switch op {
	case OpAdd:
		return (x + y) & m, true
	case OpSub:
		return (x - y) & m, true
	case OpMul:
		return (x * y) & m, true
	case OpBVAnd:
		return x & y, true
	case OpBVOr:
		return x | y, true
	case OpBVXor:
		return x ^ y, true
	case OpShl:
		if y >= uint64(w) {
			return 0, true
		}
		return (x << y) & m, true
	case OpLshr:
		if y >= uint64(w) {
			return 0, true
		}
		return x >> y, true
	case OpAshr:
		s := signExt(x, w)
		if y >= uint64(w) {
			y = uint64(w - 1)
		}
		return uint64(s>>y) & m, true
	case OpUdiv:
		if y == 0 {
			return m, true
		}
		return x / y, true
	case OpUrem:
		if y == 0 {
			return x, true
		}
		return x % y, true
	case OpSdiv:
		sx, sy := signExt(x, w), signExt(y, w)
		if sy == 0 {
			if sx < 0 {
				return 1, true
			}
			return m, true
		}
		if sy == -1 {
			return uint64(-sx) & m, true
		}
		return uint64(sx/sy) & m, true
	case OpSrem:
		sx, sy := signExt(x, w), signExt(y, w)
		if sy == 0 {
			return x, true
		}
		if sy == -1 {
			return 0, true
		}
		return uint64(sx%sy) & m, true
	}
	return 0, false
}

func (f *Factory) Add(a, b *Term) *Term   { return f.bin(OpAdd, a, b) }
func (f *Factory) Sub(a, b *Term) *Term   { return f.bin(OpSub, a, b) }
func (f *Factory) Mul(a, b *Term) *Term   { return f.bin(OpMul, a, b) }
func (f *Factory) BVAnd(a, b *Term) *Term { return f.bin(OpBVAnd, a, b) }
func (f *Factory) BVOr(a, b *Term) *Term  { return f.bin(OpBVOr, a, b) }
func (f *Factory) BVXor(a, b *Term) *Term { return f.bin(OpBVXor, a, b) }
func (f *Factory) Shl(a, b *Term) *Term   { return f.bin(OpShl, a, b) }
func (f *Factory) Lshr(a, b *Term) *Term  { return f.bin(OpLshr, a, b) }
func (f *Factory) Ashr(a, b *Term) *Term  { return f.bin(OpAshr, a, b) }
func (f *Factory) Udiv(a, b *Term) *Term  { return f.bin(OpUdiv, a, b) }
func (f *Factory) Urem(a, b *Term) *Term  { return f.bin(OpUrem, a, b) }
func (f *Factory) Sdiv(a, b *Term) *Term  { return f.bin(OpSdiv, a, b) }
func (f *Factory) Srem(a, b *Term) *Term  { return f.bin(OpSrem, a, b) }

func (f *Factory) BVNot(a *Term) *Term {
	if a.IsConst() {
		return f.BV(^a.Val, a.W)
	}
	return f.mk(&Term{Op: OpBVNot, W: a.W, Args: []*Term{a}})
}

func (f *Factory) Neg(a *Term) *Term {
	if a.IsConst() {
		return f.BV(-a.Val, a.W)
	}
	return f.mk(&Term{Op: OpNeg, W: a.W, Args: []*Term{a}})
}

func (f *Factory) Extract(a *Term, hi, lo int) *Term {
	if hi < lo || hi >= a.W || lo < 0 {
		panic(fmt.Sprintf("smt: extract [%d:%d] of width %d", hi, lo, a.W))
	}
	w := hi - lo + 1
	if w == a.W {
		return a
	}
	if a.IsConst() {
		return f.BV(a.Val>>uint(lo), w)
	}
	if (a.Op == OpZext || a.Op == OpSext) && lo == 0 {
		in := a.Args[0]
		if w == in.W {
			return in
		}
		if w < in.W {
			return f.Extract(in, hi, 0)
		}
		if a.Op == OpZext {
			return f.Zext(in, w)
		}
		return f.Sext(in, w)
	}
	if a.Op == OpIte && (a.Args[1].IsConst() || a.Args[2].IsConst()) {
		return f.Ite(a.Args[0], f.Extract(a.Args[1], hi, lo), f.Extract(a.Args[2], hi, lo))
	}
	return f.mk(&Term{Op: OpExtract, W: w, Args: []*Term{a}, Hi: hi, Lo: lo})
}

func (f *Factory) Zext(a *Term, w int) *Term {
	if w == a.W {
		return a
	}
	if w < a.W {
		panic("smt: zext narrower")
	}
	if a.IsConst() {
		return f.BV(a.Val, w)
	}
	if a.Op == OpZext {
		return f.Zext(a.Args[0], w)
	}
	return f.mk(&Term{Op: OpZext, W: w, Args: []*Term{a}})
}

func (f *Factory) Sext(a *Term, w int) *Term {
	if w == a.W {
		return a
	}
	if w < a.W {
		panic("smt: sext narrower")
	}
	if a.IsConst() {
		return f.BV(uint64(signExt(a.Val, a.W)), w)
	}
	if a.Op == OpZext {
		return f.Zext(a.Args[0], w)
	}
	return f.mk(&Term{Op: OpSext, W: w, Args: []*Term{a}})
}

// Resize truncates or extends (signed or unsigned) to width w.
func (f *Factory) Resize(a *Term, w int, signed bool) *Term {
	switch {
	case w == a.W:
		return a
	case w < a.W:
		return f.Extract(a, w-1, 0)
	case signed:
		return f.Sext(a, w)
	default:
		return f.Zext(a, w)
	}
}

func (f *Factory) Concat(hi, lo *Term) *Term {
	if hi.IsConst() && lo.IsConst() {
		return f.BV(hi.Val<<uint(lo.W)|lo.Val, hi.W+lo.W)
	}
	return f.mk(&Term{Op: OpConcat, W: hi.W + lo.W, Args: []*Term{hi, lo}})
}

func (f *Factory) cmp(op Op, a, b *Term) *Term {
	if a.W != b.W || a.W == 0 {
		panic(fmt.Sprintf("smt: cmp widths %d %d", a.W, b.W))
	}
	if a.IsConst() && b.IsConst() {
		switch op {
		case OpUlt:
			return f.Bool(a.Val < b.Val)
		case OpUle:
			return f.Bool(a.Val <= b.Val)
		case OpSlt:
			return f.Bool(signExt(a.Val, a.W) < signExt(b.Val, b.W))
		case OpSle:
			return f.Bool(signExt(a.Val, a.W) <= signExt(b.Val, b.W))
		}
	}
	if a == b {
		return f.Bool(op == OpUle || op == OpSle)
	}
	// narrow comparisons between zero-extended values / constants
	if a.Op == OpZext && b.Op == OpZext && a.Args[0].W == b.Args[0].W && a.Args[0].W < a.W {
		if op == OpSlt {
			op = OpUlt
		}
		if op == OpSle {
			op = OpUle
		}
		return f.cmp(op, a.Args[0], b.Args[0])
	}
	if a.Op == OpZext && b.IsConst() && a.Args[0].W < a.W {
		in := a.Args[0]
		sv := signExt(b.Val, b.W)
		signedOp := op == OpSlt || op == OpSle
		if signedOp && sv < 0 {
			return f.False
		}
		if b.Val > mask(in.W) {
			return f.True
		}
		uop := op
		if op == OpSlt {
			uop = OpUlt
		}
		if op == OpSle {
			uop = OpUle
		}
		return f.cmp(uop, in, f.BV(b.Val, in.W))
	}
	if b.Op == OpZext && a.IsConst() && b.Args[0].W < b.W {
		in := b.Args[0]
		sv := signExt(a.Val, a.W)
		signedOp := op == OpSlt || op == OpSle
		if signedOp && sv < 0 {
			return f.True
		}
		if a.Val > mask(in.W) {
			return f.False
		}
		uop := op
		if op == OpSlt {
			uop = OpUlt
		}
		if op == OpSle {
			uop = OpUle
		}
		return f.cmp(uop, f.BV(a.Val, in.W), in)
	}
	return f.mk(&Term{Op: op, Args: []*Term{a, b}})
}

func (f *Factory) Ult(a, b *Term) *Term { return f.cmp(OpUlt, a, b) }
func (f *Factory) Ule(a, b *Term) *Term { return f.cmp(OpUle, a, b) }
func (f *Factory) Slt(a, b *Term) *Term { return f.cmp(OpSlt, a, b) }
func (f *Factory) Sle(a, b *Term) *Term { return f.cmp(OpSle, a, b) }

// Model maps variable names to values (bool as 0/1).
type Model map[string]uint64

// Eval evaluates t under m; unassigned variables read as 0.
func (f *Factory) Eval(t *Term, m Model) uint64 {
	memo := map[int]uint64{}
	return f.eval(t, m, memo)
}

func (f *Factory) EvalMemo(t *Term, m Model, memo map[int]uint64) uint64 {
	return f.eval(t, m, memo)
}

func (f *Factory) eval(t *Term, m Model, memo map[int]uint64) uint64 {
	if t.Op == OpConst {
		return t.Val
	}
	if v, ok := memo[t.ID]; ok {
		return v
	}
	var r uint64
	a := func(i int) uint64 { return f.eval(t.Args[i], m, memo) }
	switch t.Op {
	case OpVar:
		r = m[t.Name] & func() uint64 {
			if t.W == 0 {
				return 1
			}
			return mask(t.W)
		}()
	case OpNot:
		r = 1 - a(0)
	case OpAnd:
		r = 1
		for i := range t.Args {
			if a(i) == 0 {
				r = 0
				break
			}
		}
	case OpOr:
		r = 0
		for i := range t.Args {
			if a(i) == 1 {
				r = 1
				break
			}
		}
	case OpIte:
		if a(0) == 1 {
			r = a(1)
		} else {
			r = a(2)
		}
	case OpEq:
		if a(0) == a(1) {
			r = 1
		}
	case OpAdd, OpSub, OpMul, OpBVAnd, OpBVOr, OpBVXor, OpShl, OpLshr, OpAshr, OpUdiv, OpUrem, OpSdiv, OpSrem:
		r, _ = foldBin(t.Op, a(0), a(1), t.W)
	case OpBVNot:
		r = ^a(0) & mask(t.W)
	case OpNeg:
		r = -a(0) & mask(t.W)
	case OpExtract:
		r = (a(0) >> uint(t.Lo)) & mask(t.W)
	case OpZext:
		r = a(0)
	case OpSext:
		r = uint64(signExt(a(0), t.Args[0].W)) & mask(t.W)
	case OpConcat:
		r = a(0)<<uint(t.Args[1].W) | a(1)
	case OpUlt:
		if a(0) < a(1) {
			r = 1
		}
	case OpUle:
		if a(0) <= a(1) {
			r = 1
		}
	case OpSlt:
		if signExt(a(0), t.Args[0].W) < signExt(a(1), t.Args[1].W) {
			r = 1
		}
	case OpSle:
		if signExt(a(0), t.Args[0].W) <= signExt(a(1), t.Args[1].W) {
			r = 1
		}
	default:
		panic("smt: eval op")
	}
	memo[t.ID] = r
	return r
}

func sortOf(t *Term) string {
	if t.W == 0 {
		return "Bool"
	}
	return fmt.Sprintf("(_ BitVec %d)", t.W)
}

func constStr(t *Term) string {
	if t.W == 0 {
		if t.Val == 1 {
			return "true"
		}
		return "false"
	}
	if t.W%4 == 0 {
		return fmt.Sprintf("#x%0*x", t.W/4, t.Val)
	}
	return fmt.Sprintf("#b%0*b", t.W, t.Val)
}

func ref(t *Term) string {
	switch t.Op {
	case OpConst:
		return constStr(t)
	case OpVar:
		return "|" + t.Name + "|"
	}
	return fmt.Sprintf("t%d", t.ID)
}

// body returns the SMT-LIB expression of t in terms of references to its args.
func body(t *Term) string {
	var sb strings.Builder
	switch t.Op {
	case OpExtract:
		fmt.Fprintf(&sb, "((_ extract %d %d) %s)", t.Hi, t.Lo, ref(t.Args[0]))
	case OpZext:
		fmt.Fprintf(&sb, "((_ zero_extend %d) %s)", t.W-t.Args[0].W, ref(t.Args[0]))
	case OpSext:
		fmt.Fprintf(&sb, "((_ sign_extend %d) %s)", t.W-t.Args[0].W, ref(t.Args[0]))
	default:
		sb.WriteString("(")
		sb.WriteString(opNames[t.Op])
		for _, a := range t.Args {
			sb.WriteString(" ")
			sb.WriteString(ref(a))
		}
		sb.WriteString(")")
	}
	return sb.String()
}
