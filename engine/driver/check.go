package driver

import (
	"encoding/json"
	"fmt"
	"os"
	"path/filepath"
	"regexp"
	"sort"
	"strings"
	"time"

	"verif/engine/sym"
)

type evidence struct {
	PropertyID  string         `json:"property_id"`
	Tier        string         `json:"tier"`
	Seed        int64          `json:"seed"`
	Level       string         `json:"level"`
	Coverage    map[string]any `json:"coverage"`
	Assumptions []string       `json:"assumptions"`
	WallS       float64        `json:"wall_s"`
	Violations  int            `json:"violations"`
}

var commonAssumptions = []string{
	"symbolic strings are sequences of bytes < 0x80 (no UTF-8 decoding is modelled); lengths bounded as stated per harness",
	"standard-library functions are intrinsics validated against the real functions by `go test ./sym` (strlib_test.go); regexp, expr-lang and yaml run natively on concrete arguments",
	"map iteration follows insertion order except inside the functions a harness lists under maporder (there: every permutation)",
	"package initialisers of the standard library and third-party modules are not executed; io/fs/context error globals are seeded",
	"the solver's verdict is trusted for QF_BV (z3 4.8.12 incremental, check-sat-assuming); unknown/time-out is reported as INCONCLUSIVE, never as pass",
}

// Check runs every harness of opts.Property and returns the process exit code.
func Check(opts Options) int {
	t0 := time.Now()
	prop := opts.Property
	hdir := filepath.Join(opts.Verif, "harness")
	filter := fileFilter(prop)
	ev := &evidence{PropertyID: prop, Tier: opts.Tier, Seed: opts.Seed, Level: "model_checking", Coverage: map[string]any{}}
	evPath := filepath.Join(opts.Verif, "evidence", prop+".json")
	os.MkdirAll(filepath.Dir(evPath), 0o755)
	writeEv := func() {
		ev.WallS = time.Since(t0).Seconds()
		b, _ := json.MarshalIndent(ev, "", " ")
		os.WriteFile(evPath, append(b, '\n'), 0o644)
	}

	overlay, pats, srcOf, err := buildOverlay(opts.Repo, hdir, "zz_verif_rt.go.tmpl", filter)
	if err != nil || len(pats) == 0 {
		fmt.Printf("INCONCLUSIVE property=%s reason=no-harness-files (%v)\n", prop, err)
		ev.Coverage["explanation"] = "no harness files"
		ev.Coverage["evaluations"] = 0
		ev.Coverage["distinct_nontrivial"] = 0
		writeEv()
		return 0
	}
	cfgs := map[string]*HarnessCfg{}
	for dst, src := range overlay {
		if _, ok := srcOf[dst]; ok {
			parseHarnessCfgs(string(src), opts.Tier, cfgs)
		}
	}
	P, err := sym.Load(opts.Repo, pats, overlay)
	if err != nil {
		fmt.Printf("INCONCLUSIVE property=%s reason=does-not-load: %s\n", prop, strings.ReplaceAll(err.Error(), "\n", " "))
		ev.Coverage["explanation"] = "harness package did not load: " + err.Error()
		ev.Coverage["evaluations"] = 0
		ev.Coverage["distinct_nontrivial"] = 0
		ev.Coverage["states"] = 0
		writeEv()
		return 0
	}

	kfs, err := LoadKnownFindings(filepath.Join(opts.Verif, "known_findings.jsonl"))
	if err != nil {
		fmt.Fprintln(os.Stderr, "known findings:", err)
		return 2
	}
	regions := map[string][]*sym.Region{}
	kfByName := map[string]KnownFinding{}
	for _, k := range kfs {
		if k.Status != "known" || k.Property != prop {
			continue
		}
		r, err := sym.NewRegion(k.Name, k.Region)
		if err != nil {
			fmt.Fprintln(os.Stderr, "known findings:", err)
			return 2
		}
		key := k.Harness + "|" + k.Assert
		regions[key] = append(regions[key], r)
		kfByName[k.Name] = k
	}

	base := sym.DefaultConfig()
	base.Tier = opts.Tier
	prefix := "Verif" + prop + "_"
	names := P.HarnessNames(prefix)
	if opts.Only != "" {
		var f []string
		for _, n := range names {
			if strings.HasPrefix(n, opts.Only) {
				f = append(f, n)
			}
		}
		names = f
	}
	nw := opts.Workers
	if nw <= 0 {
		nw = 16
	}

	var results []*harnessResult
	for _, name := range names {
		hc := cfgs[name]
		if hc == nil {
			hc = &HarnessCfg{Name: name}
		}
		if hc.Tiers != "" && hc.Tiers != opts.Tier {
			continue
		}
		r := explore(P, name, base, hc, regions, nw, opts.Verbose, opts.Seed)
		results = append(results, r)
		fmt.Fprintf(os.Stderr, "%s: paths=%d %v branches=%d sat=%d unsat=%d unknown=%d solver=%.1fs wall=%.1fs exhausted=%v\n",
			name, r.Paths, r.Kinds, r.Branches, r.Sat, r.Unsat, r.Unknown, r.SolverS, r.WallS, r.Exhausted)
	}

	// ---- replay -------------------------------------------------------------
	rp := newReplayer(opts, filter)
	defer rp.close()
	replayDir := filepath.Join(opts.Verif, "evidence", "replay", prop)
	os.RemoveAll(replayDir)
	os.MkdirAll(replayDir, 0o755)
	nReplayed, nConfirmed := 0, 0
	exit := 0
	var samples []any
	violations := 0
	knownPrinted := map[string]bool{}
	allFuncs := map[string]int{}
	totalStates, totalTrans := 0, 0
	var totSat, totUnsat, totUnk int
	var totSolver float64
	covers := []string{}

	for _, r := range results {
		hc := cfgs[r.Name]
		if hc == nil {
			hc = &HarnessCfg{}
		}
		runs := hc.ReplayRuns
		if runs == 0 {
			runs = 1
		}
		for f, n := range r.Funcs {
			allFuncs[f] += n
		}
		totalStates += r.Paths
		totalTrans += r.Branches
		totSat += r.Sat
		totUnsat += r.Unsat
		totUnk += r.Unknown
		totSolver += r.SolverS
		for _, c := range r.Covers {
			covers = append(covers, r.Name+": "+c)
		}
		r.Status = "pass"
		// inconclusive reasons
		if r.Unknown > 0 {
			r.Reasons = append(r.Reasons, fmt.Sprintf("%d solver queries returned unknown", r.Unknown))
		}
		for _, k := range []string{"unwind", "steps", "unsupported"} {
			if r.Kinds[k] > 0 {
				r.Reasons = append(r.Reasons, fmt.Sprintf("%d paths ended with %s", r.Kinds[k], k))
			}
		}
		if !r.Exhausted {
			r.Reasons = append(r.Reasons, "path budget or time-out reached before the work list was empty")
		}
		if len(r.Reasons) > 0 {
			r.Status = "inconclusive"
		}

		// known findings: one witness per region, replayed
		var regionNames []string
		for n := range r.known {
			regionNames = append(regionNames, n)
		}
		sort.Strings(regionNames)
		for _, rn := range regionNames {
			o := r.known[rn][0]
			confirmed := hc.NoReplay
			if !hc.NoReplay {
				nReplayed++
				res, err := rp.run(scenario{Harness: r.Name, Tier: opts.Tier, Inputs: o.Inputs, Runs: runs, Race: hc.Race}, "")
				if err == nil && confirms(o, res) {
					confirmed = true
					nConfirmed++
				} else if err != nil {
					fmt.Fprintf(os.Stderr, "replay error: %v\n", err)
				}
			}
			kf := kfByName[rn]
			if confirmed {
				if !knownPrinted[rn] {
					fmt.Printf("KNOWN-FINDING: property=%s %s [%s] witness=%s\n", prop, kf.What, rn, compactJSON(o.Inputs))
					knownPrinted[rn] = true
				}
				if r.Status == "pass" {
					r.Status = "known-only"
				}
			} else {
				fmt.Printf("UNCONFIRMED harness=%s known-region=%s witness=%s\n", r.Name, rn, compactJSON(o.Inputs))
			}
			samples = append(samples, map[string]any{"harness": r.Name, "kind": "known-finding", "region": rn, "assert": o.ID, "inputs": o.Inputs, "notes": o.Notes, "replayed": confirmed})
		}

		// new violations: dedupe by assertion id, replay up to 3 per id
		byID := map[string][]sym.Outcome{}
		for _, o := range r.newViol {
			byID[o.ID+"|"+o.Kind] = append(byID[o.ID+"|"+o.Kind], o)
		}
		var ids []string
		for id := range byID {
			ids = append(ids, id)
		}
		sort.Strings(ids)
		for _, id := range ids {
			confirmedOne := false
			for k, o := range byID[id] {
				if k >= 3 {
					break
				}
				ok := hc.NoReplay
				var res map[string]any
				if !hc.NoReplay {
					nReplayed++
					var err error
					res, err = rp.run(scenario{Harness: r.Name, Tier: opts.Tier, Inputs: o.Inputs, Runs: runs, Race: hc.Race}, "")
					if err != nil {
						fmt.Fprintf(os.Stderr, "replay error: %v\n", err)
					}
					ok = err == nil && confirms(o, res)
					if ok {
						nConfirmed++
					}
				}
				if ok {
					confirmedOne = true
					violations++
					path := filepath.Join(replayDir, fmt.Sprintf("%s-%s-%d.json", r.Name, sanitize(o.ID), k))
					b, _ := json.MarshalIndent(map[string]any{"property": prop, "harness": r.Name, "tier": opts.Tier, "assert": o.ID, "kind": o.Kind, "msg": o.Msg,
						"inputs": o.Inputs, "notes": o.Notes, "stack": o.Stack, "native": res}, "", " ")
					os.WriteFile(path, b, 0o644)
					fmt.Printf("VIOLATION property=%s replay=%s\n", prop, path)
					fmt.Printf("  harness=%s assert=%s %s inputs=%s\n", r.Name, o.ID, o.Msg, compactJSON(o.Inputs))
					samples = append(samples, map[string]any{"harness": r.Name, "kind": "violation", "assert": o.ID, "inputs": o.Inputs, "notes": o.Notes})
					exit = 1
					r.Status = "violation"
					break
				}
				fmt.Printf("UNCONFIRMED harness=%s assert=%s inputs=%s native=%s\n", r.Name, o.ID, compactJSON(o.Inputs), compactJSON(res))
			}
			if !confirmedOne && r.Status != "violation" {
				r.Status = "inconclusive"
				r.Reasons = append(r.Reasons, "solver model for "+id+" did not reproduce natively (encoding or stub mismatch)")
			}
		}
		// bound-exhausted paths: does the real code die on them too?
		if hc.ConfirmBounds && !hc.NoReplay {
			for k, o := range r.boundOut {
				if k >= 3 {
					break
				}
				nReplayed++
				res, err := rp.run(scenario{Harness: r.Name, Tier: opts.Tier, Inputs: o.Inputs, Runs: 1, Race: hc.Race}, "")
				if err != nil {
					fmt.Fprintf(os.Stderr, "replay error: %v\n", err)
					continue
				}
				if !confirms(o, res) {
					continue
				}
				nConfirmed++
				violations++
				id := prop + ".resource-exhaustion"
				path := filepath.Join(replayDir, fmt.Sprintf("%s-%s-%d.json", r.Name, sanitize(id), k))
				b, _ := json.MarshalIndent(map[string]any{"property": prop, "harness": r.Name, "tier": opts.Tier, "assert": id, "kind": o.Kind, "msg": o.Msg,
					"inputs": o.Inputs, "notes": o.Notes, "stack": o.Stack, "native": res}, "", " ")
				os.WriteFile(path, b, 0o644)
				fmt.Printf("VIOLATION property=%s replay=%s\n", prop, path)
				fmt.Printf("  harness=%s assert=%s engine bound exhausted (%s) and the real code ends with %v inputs=%s\n", r.Name, id, o.Msg, res["kind"], compactJSON(o.Inputs))
				samples = append(samples, map[string]any{"harness": r.Name, "kind": "violation", "assert": id, "inputs": o.Inputs, "notes": o.Notes})
				exit = 1
				r.Status = "violation"
				break
			}
		}
		if r.Status == "inconclusive" {
			fmt.Printf("INCONCLUSIVE harness=%s reason=%s\n", r.Name, strings.Join(r.Reasons, "; "))
			for msg, n := range r.Unsupported {
				fmt.Printf("  unsupported x%d: %s\n", n, firstLine(msg))
			}
		}
		// translation validation: sampled ok paths are replayed natively; the
		// native run must also pass and every note recorded by both sides (the
		// rendered output, typically) must be equal.
		for k, o := range r.okSamples {
			validated := false
			if !hc.NoReplay {
				nReplayed++
				res, err := rp.run(scenario{Harness: r.Name, Tier: opts.Tier, Inputs: o.Inputs, Runs: 1, Race: hc.Race}, "")
				switch {
				case err != nil:
					fmt.Fprintf(os.Stderr, "replay error: %v\n", err)
					r.Reasons = append(r.Reasons, "native replay unavailable: "+firstLine(err.Error()))
				case hc.Race && res["kind"] == "violation" && res["id"] == "C09.race":
					// the race detector reports only races that happened: a
					// race on a path the lock analysis passed is a violation
					// (and a gap of the analysis, recorded as such)
					violations++
					path := filepath.Join(replayDir, fmt.Sprintf("%s-C09.race.native-%d.json", r.Name, k))
					b, _ := json.MarshalIndent(map[string]any{"property": prop, "harness": r.Name, "tier": opts.Tier, "assert": "C09.race", "kind": "violation",
						"msg": "race detector report on a path the lock analysis passed", "inputs": o.Inputs, "notes": o.Notes, "native": res}, "", " ")
					os.WriteFile(path, b, 0o644)
					fmt.Printf("VIOLATION property=%s replay=%s\n", prop, path)
					fmt.Printf("  harness=%s assert=C09.race found by the native race detector during cross-validation, not by the lock analysis inputs=%s\n", r.Name, compactJSON(o.Inputs))
					samples = append(samples, map[string]any{"harness": r.Name, "kind": "violation", "assert": "C09.race", "found_by": "native cross-validation", "inputs": o.Inputs})
					exit = 1
					r.Status = "violation"
				case res["kind"] != "ok":
					fmt.Printf("DIVERGENCE harness=%s symbolic=ok native=%s inputs=%s\n", r.Name, compactJSON(res), compactJSON(o.Inputs))
					r.Reasons = append(r.Reasons, "engine and native execution disagree on an ok path")
				default:
					if d := notesDiffer(o.Notes, res["notes"]); d != "" && len(hc.MapOrder) == 0 {
						fmt.Printf("DIVERGENCE harness=%s note=%s inputs=%s\n", r.Name, d, compactJSON(o.Inputs))
						r.Reasons = append(r.Reasons, "engine and native execution disagree on note "+d)
					} else {
						validated = true
						nConfirmed++
					}
				}
				if len(r.Reasons) > 0 && r.Status == "pass" {
					r.Status = "inconclusive"
					fmt.Printf("INCONCLUSIVE harness=%s reason=%s\n", r.Name, strings.Join(r.Reasons, "; "))
				}
			}
			if k < 3 && len(samples) < 60 {
				samples = append(samples, map[string]any{"harness": r.Name, "kind": "ok-path", "inputs": o.Inputs, "notes": o.Notes, "branches": o.Branches, "steps": o.Steps, "native_agrees": validated})
			}
		}
	}

	// ---- evidence --------------------------------------------------------------
	var funcs []string
	for f, n := range allFuncs {
		if strings.Contains(f, "titpetric/vuego") && !strings.Contains(f, ".Verif") && !strings.Contains(f, ".zz") {
			funcs = append(funcs, fmt.Sprintf("%s x%d", strings.TrimPrefix(f, "github.com/titpetric/vuego"), n))
		}
	}
	sort.Strings(funcs)
	var hsum []any
	for _, r := range results {
		hsum = append(hsum, r)
	}
	if len(samples) == 0 {
		samples = append(samples, "no path explored")
	}
	if totalStates == 0 {
		totalStates = 0
	}
	ev.Coverage = map[string]any{
		"states":                        totalStates,
		"transitions":                   totalTrans,
		"traces_validated_against_impl": nConfirmed,
		"replays_attempted":             nReplayed,
		"samples":                       samples,
		"harnesses":                     hsum,
		"functions_encoded":             funcs,
		"queries":                       map[string]int{"sat": totSat, "unsat": totUnsat, "unknown": totUnk},
		"solver_s":                      totSolver,
		"solver":                        "z3 5.1.0 (z3-new): incremental check-sat-assuming with 250 ms limit, then one-shot cone query in a second process; Bool + BV<=64",
		"covers_hit":                    covers,
		"load_s":                        P.LoadTime.Seconds(),
		"exhaustive":                    false,
		"rule":                          "states = feasible paths of the harness explored to the end (re-execution per path); transitions = symbolic branch decisions; every assertion/panic site on a path is decided by the solver for all inputs satisfying the path condition within the stated bounds",
	}
	ev.Assumptions = commonAssumptions
	ev.Violations = violations
	writeEv()
	fmt.Printf("SUMMARY property=%s tier=%s harnesses=%d paths=%d violations=%d replayed=%d/%d wall=%.1fs\n", prop, opts.Tier, len(results), totalStates, violations, nConfirmed, nReplayed, time.Since(t0).Seconds())
	return exit
}

func compactJSON(v any) string {
	b, _ := json.Marshal(v)
	return string(b)
}

func sanitize(s string) string {
	return strings.Map(func(r rune) rune {
		if r >= 'a' && r <= 'z' || r >= 'A' && r <= 'Z' || r >= '0' && r <= '9' || r == '.' || r == '-' {
			return r
		}
		return '_'
	}, s)
}

func firstLine(s string) string {
	if i := strings.IndexByte(s, '\n'); i >= 0 {
		return s[:i]
	}
	return s
}

// notesDiffer compares the notes of the symbolic path (evaluated under the
// model) with the native run; it returns the first key whose values differ.
var ptrRe = regexp.MustCompile(`0x[0-9a-f]{6,}`)

func notesDiffer(symNotes map[string]any, native any) string {
	nm, ok := native.(map[string]any)
	if !ok {
		return ""
	}
	for k, sv := range symNotes {
		nv, ok := nm[k]
		if !ok {
			continue
		}
		if ptrRe.ReplaceAllString(fmt.Sprint(sv), "0xPTR") != ptrRe.ReplaceAllString(fmt.Sprint(nv), "0xPTR") {
			return fmt.Sprintf("%s: symbolic=%q native=%q", k, fmt.Sprint(sv), fmt.Sprint(nv))
		}
	}
	return ""
}
