// Package driver runs the harnesses of one property: parallel path
// exploration, known-finding regions, native replay, evidence.
package driver

import (
	"bufio"
	"encoding/json"
	"fmt"
	"math/rand"
	"os"
	"os/exec"
	"path/filepath"
	"regexp"
	"sort"
	"strconv"
	"strings"
	"sync"
	"time"

	"verif/engine/sym"
)

type HarnessCfg struct {
	Name       string
	Unwind     int
	MaxDepth   int
	MaxSteps   int
	MaxPaths   int
	TimeoutS   int
	MapOrder   []string
	PoolReuse  bool
	PoolLIFO   bool
	Race       bool // native replay binary is built with -race
	NoReplay   bool
	ReplayRuns int
	// ConfirmBounds: a path that exhausts the unwinding / call-depth / step
	// bound is replayed natively; when the real code dies there too (stack
	// overflow, time-out, fatal error) it is reported as a violation, else
	// the path stays inconclusive.
	ConfirmBounds bool
	Tiers         string // "", "quick", "thorough": restrict harness to a tier
	Note          string
}

var harnessRe = regexp.MustCompile(`(?m)^//verif:harness\s+(\S+)(.*)$`)

func parseHarnessCfgs(src string, tier string, into map[string]*HarnessCfg) {
	for _, m := range harnessRe.FindAllStringSubmatch(src, -1) {
		c := &HarnessCfg{Name: m[1]}
		for _, kv := range strings.Fields(m[2]) {
			k, v, _ := strings.Cut(kv, "=")
			if pre, rest, ok := strings.Cut(k, "."); ok && (pre == "quick" || pre == "thorough") {
				if pre != tier {
					continue
				}
				k = rest
			}
			n, _ := strconv.Atoi(v)
			switch k {
			case "unwind":
				c.Unwind = n
			case "depth":
				c.MaxDepth = n
			case "steps":
				c.MaxSteps = n
			case "maxpaths":
				c.MaxPaths = n
			case "timeout":
				c.TimeoutS = n
			case "maporder":
				c.MapOrder = strings.Split(v, ",")
			case "poolreuse":
				if v == "lifo" {
					c.PoolLIFO = true
				} else {
					c.PoolReuse = true
				}
			case "noreplay":
				c.NoReplay = true
			case "race":
				c.Race = true
			case "confirmbounds":
				c.ConfirmBounds = true
			case "replayruns":
				c.ReplayRuns = n
			case "tier":
				c.Tiers = v
			}
		}
		into[c.Name] = c
	}
}

type KnownFinding struct {
	Status   string         `json:"status"` // known | fixed
	Property string         `json:"property"`
	Harness  string         `json:"harness"`
	Assert   string         `json:"assert"`
	Name     string         `json:"name"`
	Region   string         `json:"region"`
	What     string         `json:"what"`
	Example  map[string]any `json:"example,omitempty"`
	Commit   string         `json:"commit,omitempty"`
}

func LoadKnownFindings(path string) ([]KnownFinding, error) {
	f, err := os.Open(path)
	if err != nil {
		if os.IsNotExist(err) {
			return nil, nil
		}
		return nil, err
	}
	defer f.Close()
	var out []KnownFinding
	sc := bufio.NewScanner(f)
	sc.Buffer(make([]byte, 1<<20), 1<<20)
	for sc.Scan() {
		line := strings.TrimSpace(sc.Text())
		if line == "" || strings.HasPrefix(line, "#") {
			continue
		}
		var k KnownFinding
		if err := json.Unmarshal([]byte(line), &k); err != nil {
			return nil, fmt.Errorf("known_findings: %v in %q", err, line)
		}
		out = append(out, k)
	}
	return out, sc.Err()
}

type Options struct {
	Repo     string
	Verif    string
	Property string
	Tier     string
	Workers  int
	Seed     int64
	Only     string // restrict to harness name prefix (debugging)
	Verbose  bool
}

type harnessResult struct {
	Name        string         `json:"name"`
	Paths       int            `json:"paths"`
	Kinds       map[string]int `json:"kinds"`
	Branches    int            `json:"branches"`
	Sat         int            `json:"sat"`
	Unsat       int            `json:"unsat"`
	Unknown     int            `json:"unknown"`
	SolverS     float64        `json:"solver_s"`
	WallS       float64        `json:"wall_s"`
	Covers      []string       `json:"covers_hit"`
	Exhausted   bool           `json:"exhausted"` // work list ran empty
	Status      string         `json:"status"`    // pass | violation | known-only | inconclusive
	Reasons     []string       `json:"reasons,omitempty"`
	Bounds      map[string]int `json:"bounds"`
	Funcs       map[string]int `json:"-"`
	Unsupported map[string]int `json:"unsupported,omitempty"`
	newViol     []sym.Outcome
	known       map[string][]sym.Outcome
	okSamples   []sym.Outcome
	boundOut    []sym.Outcome
	okSeen      int
}

func buildOverlay(repo, hdir, rtFile string, filter func(name string) bool) (map[string][]byte, []string, map[string]string, error) {
	overlay := map[string][]byte{}
	srcOf := map[string]string{} // overlay path -> real file
	var pkgs []string
	rt, err := os.ReadFile(filepath.Join(hdir, "rt", rtFile))
	if err != nil {
		return nil, nil, nil, err
	}
	err = filepath.Walk(hdir, func(p string, info os.FileInfo, err error) error {
		if err != nil || info.IsDir() || !strings.HasSuffix(p, ".go") {
			return err
		}
		rel, _ := filepath.Rel(hdir, p)
		parts := strings.Split(rel, string(filepath.Separator))
		if parts[0] == "rt" || !filter(info.Name()) {
			return nil
		}
		sub := filepath.Join(parts[:len(parts)-1]...)
		if parts[0] == "root" {
			sub = filepath.Join(parts[1 : len(parts)-1]...)
		}
		dst := filepath.Join(repo, sub, info.Name())
		src, err := os.ReadFile(p)
		if err != nil {
			return err
		}
		overlay[dst] = src
		srcOf[dst] = p
		pkgName := ""
		for _, l := range strings.Split(string(src), "\n") {
			if strings.HasPrefix(l, "package ") {
				pkgName = strings.TrimSpace(strings.TrimPrefix(l, "package "))
				break
			}
		}
		rtDst := filepath.Join(repo, sub, "zz_verif_rt.go")
		if _, ok := overlay[rtDst]; !ok {
			overlay[rtDst] = []byte(strings.Replace(string(rt), "package PKG", "package "+pkgName, 1))
			pat := "./" + sub
			if sub == "" || sub == "." {
				pat = "."
			}
			pkgs = append(pkgs, pat)
		}
		return nil
	})
	return overlay, pkgs, srcOf, err
}

func fileFilter(prop string) func(string) bool {
	tag := "_" + strings.ToLower(prop) + "_"
	return func(n string) bool {
		return strings.Contains(n, tag) || strings.Contains(n, "_common")
	}
}

// explore runs one harness to exhaustion (or budget) on nw workers.
func explore(P *sym.Program, name string, base sym.Config, hc *HarnessCfg, regions map[string][]*sym.Region, nw int, verbose bool, seed int64) *harnessResult {
	rng := rand.New(rand.NewSource(seed + 1))
	okReservoir := 8
	if base.Tier == "thorough" {
		okReservoir = 24
	}
	cfg := base
	if hc.Unwind > 0 {
		cfg.Unwind = hc.Unwind
	}
	if hc.MaxDepth > 0 {
		cfg.MaxDepth = hc.MaxDepth
	}
	if hc.MaxSteps > 0 {
		cfg.MaxSteps = hc.MaxSteps
	}
	cfg.MapOrderFuncs = hc.MapOrder
	cfg.PoolReuse = hc.PoolReuse
	cfg.PoolLIFO = hc.PoolLIFO
	maxPaths := hc.MaxPaths
	if maxPaths == 0 {
		maxPaths = 200000
	}
	timeout := time.Duration(hc.TimeoutS) * time.Second
	if timeout == 0 {
		timeout = 20 * time.Minute
	}
	res := &harnessResult{Name: name, Kinds: map[string]int{}, known: map[string][]sym.Outcome{}, Funcs: map[string]int{}, Unsupported: map[string]int{},
		Bounds: map[string]int{"unwind": cfg.Unwind, "call_depth": cfg.MaxDepth, "steps_per_path": cfg.MaxSteps, "max_paths": maxPaths}}
	t0 := time.Now()
	deadline := t0.Add(timeout)

	var mu sync.Mutex
	cond := sync.NewCond(&mu)
	stack := []sym.PathItem{{}}
	inflight := 0
	started := 0
	stopped := false
	covers := map[string]bool{}
	fn := P.Harness[name]

	progressDone := make(chan struct{})
	go func() {
		tk := time.NewTicker(15 * time.Second)
		defer tk.Stop()
		for {
			select {
			case <-progressDone:
				return
			case <-tk.C:
				mu.Lock()
				fmt.Fprintf(os.Stderr, "  .. %s: %d paths, %d queued, %v (%.0fs)\n", name, res.Paths, len(stack), res.Kinds, time.Since(t0).Seconds())
				mu.Unlock()
			}
		}
	}()
	var wg sync.WaitGroup
	for k := 0; k < nw; k++ {
		wg.Add(1)
		go func() {
			defer wg.Done()
			w, err := sym.NewWorker(P, cfg)
			if err != nil {
				mu.Lock()
				res.Reasons = append(res.Reasons, "solver start: "+err.Error())
				mu.Unlock()
				return
			}
			w.Regions = regions
			defer func() {
				mu.Lock()
				res.Sat += w.S.NSat
				res.Unsat += w.S.NUnsat
				res.Unknown += w.S.NUnknown
				res.SolverS += w.S.Time.Seconds()
				for f, n := range w.FuncsEntered {
					res.Funcs[f] += n
				}
				for f, n := range w.Unsupported {
					res.Unsupported[f] += n
				}
				mu.Unlock()
				w.Close()
			}()
			for {
				mu.Lock()
				for len(stack) == 0 && inflight > 0 && !stopped {
					cond.Wait()
				}
				if stopped || (len(stack) == 0 && inflight == 0) {
					mu.Unlock()
					cond.Broadcast()
					return
				}
				if started >= maxPaths || time.Now().After(deadline) {
					stopped = true
					mu.Unlock()
					cond.Broadcast()
					return
				}
				it := stack[len(stack)-1]
				stack = stack[:len(stack)-1]
				inflight++
				started++
				for c := range covers {
					w.CoversHit[c] = true
				}
				mu.Unlock()

				out, forks := w.RunPath(fn, it)

				mu.Lock()
				inflight--
				stack = append(stack, forks...)
				res.Paths++
				res.Kinds[out.Kind]++
				res.Branches += out.Branches
				for _, c := range out.Covers {
					covers[c] = true
				}
				switch out.Kind {
				case "violation", "panic":
					if out.Known != "" {
						if len(res.known[out.Known]) < 3 {
							res.known[out.Known] = append(res.known[out.Known], out)
						}
					} else if len(res.newViol) < 50 {
						res.newViol = append(res.newViol, out)
					}
				case "unwind", "steps":
					if len(res.boundOut) < 6 {
						res.boundOut = append(res.boundOut, out)
					}
				case "ok":
					// reservoir sample of ok paths for native cross-validation
					res.okSeen++
					if len(res.okSamples) < okReservoir {
						res.okSamples = append(res.okSamples, out)
					} else if k := rng.Intn(res.okSeen); k < okReservoir {
						res.okSamples[k] = out
					}
				}
				if verbose && out.Kind != "ok" && out.Kind != "infeasible" {
					b, _ := json.Marshal(out)
					fmt.Fprintln(os.Stderr, string(b))
				}
				mu.Unlock()
				cond.Broadcast()
			}
		}()
	}
	wg.Wait()
	close(progressDone)
	res.WallS = time.Since(t0).Seconds()
	res.Exhausted = len(stack) == 0 && !stopped
	for c := range covers {
		res.Covers = append(res.Covers, c)
	}
	sort.Strings(res.Covers)
	return res
}

// ---- replay ---------------------------------------------------------------------

type scenario struct {
	Harness string         `json:"harness"`
	Tier    string         `json:"tier"`
	Inputs  map[string]any `json:"inputs"`
	Runs    int            `json:"runs"`
	Expect  map[string]any `json:"expect"`
	Race    bool           `json:"-"`
}

type replayer struct {
	opts    Options
	dir     string // scratch
	bin     map[string]string
	pkgOf   map[string]string // harness -> package pattern
	err     error
	overlay string
}

var funcRe = regexp.MustCompile(`(?m)^func (Verif\w+)\(\)`)

// newReplayer compiles the harness packages natively (go test -c -overlay)
// with the replay runtime; one test binary per package.
func newReplayer(opts Options, filter func(string) bool) *replayer {
	r := &replayer{opts: opts, bin: map[string]string{}, pkgOf: map[string]string{}}
	dir, err := os.MkdirTemp("", "vsym-replay-")
	if err != nil {
		r.err = err
		return r
	}
	r.dir = dir
	hdir := filepath.Join(opts.Verif, "harness")
	overlay, pkgs, srcOf, err := buildOverlay(opts.Repo, hdir, "zz_verif_rt_replay.go.tmpl", filter)
	if err != nil {
		r.err = err
		return r
	}
	replace := map[string]string{}
	perPkg := map[string][]string{}
	for dst, src := range overlay {
		real, ok := srcOf[dst]
		if !ok {
			// the runtime file: write it to scratch
			real = filepath.Join(dir, strings.ReplaceAll(strings.TrimPrefix(dst, opts.Repo), "/", "_"))
			if err := os.WriteFile(real, src, 0o644); err != nil {
				r.err = err
				return r
			}
		} else {
			for _, m := range funcRe.FindAllStringSubmatch(string(src), -1) {
				d := filepath.Dir(dst)
				perPkg[d] = append(perPkg[d], m[1])
			}
		}
		replace[dst] = real
	}
	for d, names := range perPkg {
		sort.Strings(names)
		pkgName := ""
		for dst, src := range overlay {
			if filepath.Dir(dst) == d {
				for _, l := range strings.Split(string(src), "\n") {
					if strings.HasPrefix(l, "package ") {
						pkgName = strings.TrimSpace(strings.TrimPrefix(l, "package "))
					}
				}
			}
		}
		var sb strings.Builder
		fmt.Fprintf(&sb, "package %s\n\nimport \"testing\"\n\nfunc TestZZReplay(t *testing.T) {\n\tzzReplayMain(map[string]func(){\n", pkgName)
		for _, n := range names {
			fmt.Fprintf(&sb, "\t\t%q: %s,\n", n, n)
		}
		sb.WriteString("\t})\n}\n")
		real := filepath.Join(dir, "replay_test_"+strings.ReplaceAll(strings.TrimPrefix(d, opts.Repo), "/", "_")+".go")
		os.WriteFile(real, []byte(sb.String()), 0o644)
		replace[filepath.Join(d, "zz_verif_replay_test.go")] = real
		rel, _ := filepath.Rel(opts.Repo, d)
		pat := "./" + rel
		if rel == "." {
			pat = "."
		}
		for _, n := range names {
			r.pkgOf[n] = pat
		}
	}
	_ = pkgs
	ov, _ := json.Marshal(map[string]any{"Replace": replace})
	r.overlay = filepath.Join(dir, "overlay.json")
	os.WriteFile(r.overlay, ov, 0o644)
	return r
}

func (r *replayer) binary(pat string, race bool) (string, error) {
	key := pat
	if race {
		key += "#race"
	}
	if b, ok := r.bin[key]; ok {
		return b, nil
	}
	out := filepath.Join(r.dir, "replay_"+strings.NewReplacer("/", "_", ".", "_", "#", "_").Replace(key)+".test")
	args := []string{"test", "-c", "-vet=off", "-overlay", r.overlay, "-o", out}
	if race {
		args = append(args, "-race")
	}
	args = append(args, pat)
	cmd := exec.Command("go", args...)
	cmd.Dir = r.opts.Repo
	cmd.Env = append(os.Environ(), "GOFLAGS=-mod=mod", "GOPROXY=off", "GOTOOLCHAIN=auto")
	b, err := cmd.CombinedOutput()
	if err != nil {
		return "", fmt.Errorf("replay build failed: %v: %s", err, tail(string(b), 1500))
	}
	r.bin[key] = out
	return out, nil
}

func tail(s string, n int) string {
	if len(s) > n {
		return s[len(s)-n:]
	}
	return s
}

// run replays one scenario in its own process with time and memory limits.
func (r *replayer) run(sc scenario, pkgDir string) (map[string]any, error) {
	if r.err != nil {
		return nil, r.err
	}
	pat, ok := r.pkgOf[sc.Harness]
	if !ok {
		return nil, fmt.Errorf("no package for harness %s", sc.Harness)
	}
	bin, err := r.binary(pat, sc.Race)
	if err != nil {
		return nil, err
	}
	f, _ := os.CreateTemp(r.dir, "scenario-*.json")
	b, _ := json.Marshal(sc)
	f.Write(b)
	f.Close()
	wd := filepath.Join(r.opts.Repo, strings.TrimPrefix(pat, "./"))
	cmd := exec.Command("sh", "-c", "ulimit -v 4000000; exec timeout 120 "+bin+" -test.run '^TestZZReplay$' -test.count=1 -test.timeout=55s")
	cmd.Dir = wd
	cmd.Env = append(os.Environ(), "ZZ_SCENARIO="+f.Name())
	out, runErr := cmd.CombinedOutput()
	if strings.Contains(string(out), "WARNING: DATA RACE") {
		return map[string]any{"kind": "violation", "id": "C09.race", "msg": tail(firstRace(string(out)), 900)}, nil
	}
	for _, line := range strings.Split(string(out), "\n") {
		if strings.HasPrefix(line, "ZZREPLAY ") {
			var res map[string]any
			if err := json.Unmarshal([]byte(strings.TrimPrefix(line, "ZZREPLAY ")), &res); err == nil {
				return res, nil
			}
		}
	}
	// no result line: the process died (fatal error, stack overflow, time-out)
	kind := "crash"
	if runErr != nil && strings.Contains(runErr.Error(), "124") {
		kind = "timeout"
	}
	if strings.Contains(string(out), "stack overflow") || strings.Contains(string(out), "goroutine stack exceeds") {
		kind = "stack-overflow"
	}
	if strings.Contains(string(out), "test timed out") {
		kind = "timeout"
	}
	return map[string]any{"kind": kind, "id": "panic", "msg": tail(string(out), 400)}, nil
}

func (r *replayer) close() {
	if r.dir != "" {
		os.RemoveAll(r.dir)
	}
}

// confirms decides whether a native outcome reproduces the symbolic one.
func confirms(o sym.Outcome, res map[string]any) bool {
	kind, _ := res["kind"].(string)
	id, _ := res["id"].(string)
	switch o.Kind {
	case "violation":
		// the native oracles (real tokenizer) may attribute the failure to a
		// sibling assertion of the same group ("C01.sink.*")
		if kind == "violation" && id == "C09.race" && strings.HasPrefix(o.ID, "C09.") {
			// the race detector ends the native run before the byte
			// comparison is reached: a report confirms the violation
			return true
		}
		return kind == "violation" && (id == o.ID || assertGroup(id) == assertGroup(o.ID))
	case "panic":
		return kind == "panic" || kind == "crash" || kind == "stack-overflow"
	case "unwind", "steps":
		return kind == "timeout" || kind == "stack-overflow" || kind == "crash"
	}
	return false
}

func assertGroup(id string) string {
	if i := strings.LastIndexByte(id, '.'); i > 0 {
		return id[:i]
	}
	return id
}

func firstRace(out string) string {
	i := strings.Index(out, "WARNING: DATA RACE")
	if i < 0 {
		return ""
	}
	rest := out[i:]
	if j := strings.Index(rest, "=================="); j > 0 {
		rest = rest[:j]
	}
	return rest
}
