package main

import (
	"encoding/json"
	"flag"
	"fmt"
	"os"
	"path/filepath"
	"runtime/debug"
	"runtime/pprof"
	"strings"
	"time"

	"verif/engine/driver"
	"verif/engine/sym"
)

func buildOverlay(repo, hdir string, filter func(name string) bool) (map[string][]byte, []string, error) {
	overlay := map[string][]byte{}
	var pkgs []string
	rt, err := os.ReadFile(filepath.Join(hdir, "rt", "zz_verif_rt.go.tmpl"))
	if err != nil {
		return nil, nil, err
	}
	err = filepath.Walk(hdir, func(p string, info os.FileInfo, err error) error {
		if err != nil || info.IsDir() || !strings.HasSuffix(p, ".go") {
			return err
		}
		rel, _ := filepath.Rel(hdir, p)
		parts := strings.Split(rel, string(filepath.Separator))
		if parts[0] == "rt" {
			return nil
		}
		if !filter(info.Name()) {
			return nil
		}
		sub := filepath.Join(parts[1 : len(parts)-1]...)
		if parts[0] != "root" {
			sub = filepath.Join(parts[:len(parts)-1]...)
		}
		dst := filepath.Join(repo, sub, info.Name())
		src, err := os.ReadFile(p)
		if err != nil {
			return err
		}
		overlay[dst] = src
		// package name from the source
		pkgName := ""
		for _, l := range strings.Split(string(src), "\n") {
			if strings.HasPrefix(l, "package ") {
				pkgName = strings.TrimSpace(strings.TrimPrefix(l, "package "))
				break
			}
		}
		rtDst := filepath.Join(repo, sub, "zz_verif_rt.go")
		if _, ok := overlay[rtDst]; !ok {
			overlay[rtDst] = []byte(strings.Replace(string(rt), "package PKG", "package "+pkgName, 1))
			pat := "./" + sub
			if sub == "" || sub == "." {
				pat = "."
			}
			pkgs = append(pkgs, pat)
		}
		return nil
	})
	return overlay, pkgs, err
}

func main() {
	debug.SetGCPercent(400)
	if pf := os.Getenv("VSYM_PROF"); pf != "" {
		f, _ := os.Create(pf)
		pprof.StartCPUProfile(f)
		defer pprof.StopCPUProfile()
	}
	if len(os.Args) > 1 && os.Args[1] == "check" {
		fs := flag.NewFlagSet("check", flag.ExitOnError)
		repo := fs.String("repo", "/repo", "repository under test")
		verif := fs.String("verif", "/verif", "verification directory")
		prop := fs.String("property", "", "property id")
		tier := fs.String("tier", "quick", "quick|thorough")
		workers := fs.Int("workers", 16, "parallel workers")
		only := fs.String("only", "", "harness name prefix")
		verbose := fs.Bool("v", false, "print non-ok outcomes")
		fs.Parse(os.Args[2:])
		seed := int64(0)
		if s := os.Getenv("VERIF_SEED"); s != "" {
			fmt.Sscan(s, &seed)
		}
		os.Exit(driver.Check(driver.Options{Repo: *repo, Verif: *verif, Property: *prop, Tier: *tier, Workers: *workers, Seed: seed, Only: *only, Verbose: *verbose}))
	}
	repo := flag.String("repo", "/repo", "repository under test")
	hdir := flag.String("harness-dir", "/verif/harness", "harness directory")
	harness := flag.String("harness", "", "harness function name (or prefix)")
	filter := flag.String("files", "", "substring filter on harness file names")
	unwind := flag.Int("unwind", 64, "loop unwinding bound")
	maxPaths := flag.Int("max-paths", 100000, "path budget")
	verbose := flag.Bool("v", false, "print every outcome")
	flag.Parse()

	overlay, pats, err := buildOverlay(*repo, *hdir, func(n string) bool {
		return *filter == "" || strings.Contains(n, *filter) || strings.Contains(n, "common")
	})
	if err != nil {
		fmt.Fprintln(os.Stderr, err)
		os.Exit(2)
	}
	P, err := sym.Load(*repo, pats, overlay)
	if err != nil {
		fmt.Fprintln(os.Stderr, "load:", err)
		os.Exit(2)
	}
	fmt.Fprintf(os.Stderr, "loaded in %v; harnesses: %v\n", P.LoadTime, P.HarnessNames(""))
	cfg := sym.DefaultConfig()
	cfg.Unwind = *unwind
	for _, name := range P.HarnessNames(*harness) {
		w, err := sym.NewWorker(P, cfg)
		if err != nil {
			fmt.Fprintln(os.Stderr, err)
			os.Exit(2)
		}
		t0 := time.Now()
		stack := []sym.PathItem{{}}
		counts := map[string]int{}
		n := 0
		for len(stack) > 0 && n < *maxPaths {
			it := stack[len(stack)-1]
			stack = stack[:len(stack)-1]
			out, forks := w.RunPath(P.Harness[name], it)
			stack = append(stack, forks...)
			n++
			counts[out.Kind]++
			if *verbose || (out.Kind != "ok" && out.Kind != "infeasible") {
				b, _ := json.Marshal(out)
				fmt.Println(string(b))
			}
		}
		fmt.Printf("%s: paths=%d %v sat=%d unsat=%d unk=%d solver=%v wall=%v terms=%d\n", name, n, counts, w.S.NSat, w.S.NUnsat, w.S.NUnknown, w.S.Time, time.Since(t0), w.F.NumTerms())
		for k, v := range w.Unsupported {
			fmt.Printf("  unsupported x%d: %s\n", v, k)
		}
		w.Close()
	}
}
