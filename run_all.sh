#!/bin/sh
# usage: ./run_all.sh [quick|thorough] [ids...]   -- runs the registered checks one after the other
tier="${1:-quick}"; shift
ids="$*"
[ -z "$ids" ] && ids=$(python3 -c "import json;print(' '.join(c['property_id'] for c in json.load(open('/verif/MANIFEST.json'))['checks']))")
cd "$(dirname "$0")" || exit 2
rc=0
for id in $ids; do
  start=$(date +%s)
  ./check "$id" "$tier" > /tmp/run_all_${tier}_$id.log 2>&1
  ex=$?
  [ $ex -ne 0 ] && rc=1
  echo "== $id exit=$ex $(( $(date +%s) - start ))s"
  grep -E "^(VIOLATION|KNOWN-FINDING|UNCONFIRMED|INCONCLUSIVE|DIVERGENCE|SUMMARY|  unsupported)" /tmp/run_all_${tier}_$id.log | cut -c1-260
done
exit $rc
