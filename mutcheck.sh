#!/bin/sh
# usage: mutcheck.sh <patch> <property> [tier]   -- applies a seeded change to /repo, runs the check, reverts
patch="$1"; prop="$2"; tier="${3:-quick}"
cd /repo || exit 2
if ! git diff --quiet; then echo "repo dirty"; exit 2; fi
git apply "$patch" || { echo "PATCH-DOES-NOT-APPLY"; exit 3; }
cd /verif && ./check "$prop" "$tier" > /tmp/mut_$prop.log 2>&1
rc=$?
cd /repo && git checkout -- . && git clean -fdq
echo "exit=$rc"
grep -E "^(VIOLATION|KNOWN|UNCONFIRMED|INCONCLUSIVE|DIVERGENCE|SUMMARY)" /tmp/mut_$prop.log | cut -c1-300 | head -8
cd /verif && git checkout -- evidence 2>/dev/null
